"""C07  Solutions are equivariant under hexagonal symmetries.

asm   one assembly: the power map (pins, duct cells, coolant) is moved by
      each of the 5 rotations and by the mirror (wire direction reversed); the
      solution of the moved problem must be the moved solution (<= 1e-10 K) at
      every recorded plane; the mirror WITHOUT reversing the wire must differ
      (the oracle has teeth).
core  a core loading (types, flows, powers, each assembly's power map) is
      rotated about the core centre by k x 60 degrees; all assembly fields and
      all gap temperatures must rotate with it, for the three gap models.
Permutations are derived by the harness from published centroid coordinates
(pin_lattice.xy, subchannel.xy, Core.map_assembly_xy, _asm_sc_xbnds) by
nearest-point matching with a hard assert on the match distance.
"""
import math

import numpy as np

from ..run import new_result, violation, site_of
from .. import scenario as S

TOL = 1e-10
OFTF = 0.060
L = 0.10
SHAPES = [S.AXIAL['up'] + [0.0], S.AXIAL['mid']]


def gmat(g):
    """g = 0..5 rotations by -60*g degrees (clockwise), 'm' mirror x -> -x"""
    if g == 'm':
        return np.array([[-1.0, 0.0], [0.0, 1.0]])
    a = -g * math.pi / 3.0
    return np.array([[math.cos(a), -math.sin(a)], [math.sin(a), math.cos(a)]])


def perm_of(xy, G, tol=1e-8):
    """p[i] = index of the point located at G(xy[i])"""
    xy = np.asarray(xy, dtype=float)
    img = xy @ G.T
    d = np.sqrt(((img[:, None, :] - xy[None, :, :]) ** 2).sum(axis=2))
    p = np.argmin(d, axis=1)
    if float(np.max(d[np.arange(len(xy)), p])) > tol or len(set(p.tolist())) != len(xy):
        raise AssertionError('point set is not mapped onto itself (max miss %.3g)' %
                             float(np.max(d[np.arange(len(xy)), p])))
    return p


def move(v, p):
    """field moved with the points: w[p[i]] = v[i]"""
    w = np.empty_like(v)
    w[p] = v
    return w


def tdesign(kind, wire_dir='clockwise', rings=3):
    kw = dict(oftf=OFTF, clearance='mid', wire_dir=wire_dir)
    if kind == 'single':
        return S.design(rings, **kw)
    if kind == 'bypass':
        return S.design(rings, ducts=2, byp_t=0.002, bypass_fraction=0.1, **kw)
    if kind == 'pins':
        return S.design(rings, fuelmodel={'clad_material': 'ht9', 'r_frac': [0.0, 0.5], 'pu_frac': [0.2, 0.2],
                                          'zr_frac': [0.1, 0.1], 'porosity': [0.2, 0.2]}, **kw)
    if kind == 'B':
        return S.design(2, pd=1.3, oftf=OFTF, clearance='loose', wire_dir=wire_dir)
    if kind == 'U':      # the same bundle run with the low-fidelity model
        return S.design(rings, lowfi={'model': 'simple'}, **kw)
    if kind in ('six', 'one'):
        # the bundle between two un-rodded regions (six-sector model / single node); the recorded planes at 0.34 L
        # and L lie inside them
        m = '6node' if kind == 'six' else 'simple'
        return S.design(rings, regions={'lower': {'z_lo': 0.0, 'z_hi': round(0.4 * L, 9), 'vf_coolant': 0.3, 'model': m},
                                        'upper': {'z_lo': round(0.8 * L, 9), 'z_hi': L, 'vf_coolant': 0.35, 'model': m}},
                        **kw)
    raise ValueError(kind)


def layers(reg):
    """xy of pins, coolant cells and every duct / bypass layer"""
    sc = reg.subchannel
    nc = sc.n_sc['coolant']['total']
    nd = sc.n_sc['duct']['total']
    out = {'pins': np.asarray(reg.pin_lattice.xy, dtype=float), 'cool': np.asarray(sc.xy[:nc], dtype=float)}
    for k in range(2 * reg.n_duct - 1):
        out['layer%d' % k] = np.asarray(sc.xy[nc + k * nd: nc + (k + 1) * nd], dtype=float)
    return out


def weights(n, seed, off):
    return S.radial_weights(n, 'asym', seed + off)


def power_arrays(reg, q, seed):
    lay = layers(reg)
    npin, nc = len(lay['pins']), len(lay['cool'])
    nd = len(lay['layer0'])
    w = {'pins': weights(npin, seed, 0) * q,
         'duct': np.concatenate([weights(nd, seed, 1 + d) for d in range(reg.n_duct)]) * q * 0.03 * npin / nd,
         'cool': weights(nc, seed, 7) * q * 0.02 * npin / nc}
    return w, lay


def spec_from(w):
    spec = {'cells': [0.0, L / 2, L]}
    for key in ('pins', 'duct', 'cool'):
        spec[key] = [[[float(x * c) for c in shape] for x in w[key]] for shape in SHAPES]
    if 'pins0' in w:
        # another pin pattern in the lower power cell (some pins unheated there and heated above)
        spec['pins'][0] = [[float(x * c) for c in SHAPES[0]] for x in w['pins0']]
    return spec


def moved_power(w, lay, G, nduct):
    out = {}
    pp = perm_of(lay['pins'], G)
    pc = perm_of(lay['cool'], G)
    out['pins'] = move(w['pins'], pp)
    if 'pins0' in w:
        out['pins0'] = move(w['pins0'], pp)
    out['cool'] = move(w['cool'], pc)
    nd = len(lay['layer0'])
    parts = []
    perms = {'pins': pp, 'cool': pc}
    for d in range(nduct):
        pd_ = perm_of(lay['layer%d' % (2 * d)], G)
        perms['layer%d' % (2 * d)] = pd_
        parts.append(move(w['duct'][d * nd:(d + 1) * nd], pd_))
    for k in range(2 * nduct - 1):
        if 'layer%d' % k not in perms:
            perms['layer%d' % k] = perm_of(lay['layer%d' % k], G)
    out['duct'] = np.concatenate(parts)
    return out, perms


# the six sectors / wall cells of an un-rodded region, in DASSH's order (published by the one-ring Subchannel of the
# six-sector model: clockwise from the sector at +30 degrees)
SIX = np.array([[math.cos(math.radians(a_)), math.sin(math.radians(a_))] for a_ in (30, -30, -90, -150, 150, 90)])


def fields(a):
    reg = a.active_region
    f = {'cool': reg.temp['coolant_int'].copy()}
    if not reg.is_rodded:
        f['_six'] = np.zeros(1)
    for d in range(reg.temp['duct_mw'].shape[0]):
        f['mw%d' % d] = reg.temp['duct_mw'][d].copy()
        f['si%d' % d] = reg.temp['duct_surf'][d, 0].copy()
        f['so%d' % d] = reg.temp['duct_surf'][d, 1].copy()
    if 'coolant_byp' in reg.temp:
        for i in range(reg.temp['coolant_byp'].shape[0]):
            f['byp%d' % i] = reg.temp['coolant_byp'][i].copy()
    if hasattr(reg, 'pin_temps') and hasattr(reg, 'pin_model'):
        for col in range(3, 9):
            f['pin%d' % col] = reg.pin_temps[:, col].copy()
    return f


def field_perm(name, perms, rec=None, G=None):
    if rec is not None and '_six' in rec:
        # un-rodded region: six sectors (or one node) and six wall cells
        if name == 'cool' and len(rec['cool']) == 1:
            return np.zeros(1, dtype=int)
        return perm_of(SIX, G)
    if name == 'cool':
        return perms['cool']
    if name.startswith('pin'):
        return perms['pins']
    if name.startswith(('mw', 'si', 'so')):
        return perms['layer%d' % (2 * int(name[2:]))]
    if name.startswith('byp'):
        return perms['layer%d' % (2 * int(name[3:]) + 1)]
    raise KeyError(name)


def sweep_record(scn, planes=(0.34, 0.67, 1.0)):
    with S.Built(scn) as b:
        rx = b.reactor()
        n = len(rx.z) - 1
        marks = sorted(set(max(1, int(round(p * n))) for p in planes))
        rec = []
        rx._data_setup()
        rx._data_open()
        rx.axial_step0()
        for i in range(1, n + 1):
            rx.axial_step(rx.z[i], rx.dz[i - 1], i)
            if i in marks:
                gap = None
                if rx.core.model is not None:
                    gap = [rx.core.adjacent_coolant_gap_temp(ai)[rx.core._asm_sc_adj[ai] > 0].copy()
                           for ai in range(len(rx.assemblies))]
                rec.append(([fields(a) for a in rx.assemblies], gap))
        # what the DUCT TEMPERATURE SUMMARY of dassh.out prints per duct and hexagon face (real table method)
        from dassh.table import DuctTempTable
        rx._vf_face_table = [np.array(DuctTempTable._get_avg_duct_face_temp(a), dtype=float) for a in rx.assemblies]
        return rec, rx, n


def face_points(xy_cells):
    """one point per hexagon face of a duct ring given its cells in DASSH's order (face by face, the closing corner
    last): the mean position of the cells the printed face average is taken over (own cells + the corner closing the
    previous face)"""
    xy = np.asarray(xy_cells, dtype=float)
    k = len(xy) // 6
    pts = []
    for f_ in range(6):
        idx = [(f_ * k - 1) % len(xy)] + list(range(f_ * k, (f_ + 1) * k))
        pts.append(xy[idx].mean(axis=0))
    return np.array(pts)


# ----------------------------------------------------------------------
def run_asm(c):
    r = new_result()
    V = r['violations']
    kind, wd = c['kind'], c['wire']
    rings = c.get('rings', 3)
    other = 'counterclockwise' if wd == 'clockwise' else 'clockwise'
    gm = c['wall']

    def scn_for(w, wire_dir):
        dsn = tdesign(kind, wire_dir, rings)
        return {'setup': {}, 'core': {'inlet': 623.15, 'length': L, 'pitch': 0.064, 'gap_model': gm,
                                       'bypass_fraction': 0.0 if gm == 'none' else 0.05},
                'types': {'T': dsn}, 'assign': [['T', 1, 1, {'flowrate': c.get('flow', 1.2)}]],
                'power': {'asm': {'1': spec_from(w)}}}
    # a probe reactor gives the published coordinates
    probe = scn_for({'pins': np.ones(S.n_pins(rings)), 'duct': np.ones(S.n_duct_cells(rings) * (2 if kind == 'bypass' else 1)),
                     'cool': np.ones(sum(S.n_cool(rings)))}, wd)
    with S.Built(probe) as b:
        reg = b.reactor().assemblies[0].rodded
        w, lay = power_arrays(reg, 9000.0, c.get('seed', 0))
        nduct = reg.n_duct
    if c.get('late'):
        # the last, the first and a middle pin make no power in the lower half of the core
        w['pins0'] = np.array(w['pins'], dtype=float)
        w['pins0'][[0, len(w['pins0']) // 2, -1]] = 0.0
    base, rx0, n = sweep_record(scn_for(w, wd))
    r['states'] = n
    r['transitions'] = n
    r['traces'] = 1
    worst = 0.0
    for g in c['elements']:
        G = gmat(g)
        w2, perms = moved_power(w, lay, G, nduct)
        wire2 = other if g == 'm' else wd
        got, _rx2, n2 = sweep_record(scn_for(w2, wire2))
        r['traces'] += 1
        r['transitions'] += n2
        if n2 != n:
            V.append(violation('mesh-differs', dict(c, g=str(g)), 'moved problem has a different axial mesh'))
            continue
        for (fb, gb), (fg, gg) in zip(base, got):
            for name, v in fb[0].items():
                if name.startswith('_'):
                    continue
                p = field_perm(name, perms, fb[0], G)
                dev = float(np.max(np.abs(move(v, p) - fg[0][name])))
                worst = max(worst, dev)
                if dev > TOL:
                    V.append(violation('not-equivariant', dict(c, g=str(g), field=name),
                                       'field %s of the moved problem is not the moved field (element %s)' % (name, g),
                                       dev, 0.0, TOL))
                    break
            if gb is not None:
                p = perms['layer%d' % (2 * (nduct - 1))]
                dev = float(np.max(np.abs(move(gb[0], p) - gg[0])))
                worst = max(worst, dev)
                if dev > TOL:
                    V.append(violation('gap-not-equivariant', dict(c, g=str(g)),
                                       'gap temperatures round the assembly do not move with the problem', dev, 0.0, TOL))
            if V:
                break
        # the printed face averages of every duct move with the problem
        if not V:
            lastreg = rx0.assemblies[0].region[-1]
            ft0, ft2 = rx0._vf_face_table[0], _rx2._vf_face_table[0]
            for d_ in range(ft0.shape[0]):
                pts = face_points(SIX if not lastreg.is_rodded else lay['layer%d' % (2 * d_)])
                pf = perm_of(pts, G, tol=1e-7)
                dev = float(np.max(np.abs(move(ft0[d_], pf) - ft2[d_])))
                worst = max(worst, dev)
                if dev > TOL:
                    V.append(violation('face-table-not-equivariant', dict(c, g=str(g), duct=d_ + 1),
                                       'face averages of duct %d in the duct temperature table do not move with the '
                                       'problem (element %s)' % (d_ + 1, g), dev, 0.0, TOL,
                                       site='table.py:DuctTempTable._get_avg_duct_face_temp'))
                    break
        if g == 'm' and rx0.assemblies[0].rodded.wire_diameter > 0 and not V:
            # teeth: mirrored map WITHOUT reversing the wire must give a different answer
            bad, _, _ = sweep_record(scn_for(w2, wd))
            r['traces'] += 1
            name = 'cool'
            kb = max(k_ for k_ in range(len(base)) if '_six' not in base[k_][0][0])    # last plane inside the bundle
            dev = float(np.max(np.abs(move(base[kb][0][0][name], perms['cool']) - bad[kb][0][0][name])))
            r['extra'] = {'mirror_teeth_K': [round(dev, 3)]}
            if not dev > 1e-3:
                V.append(violation('oracle-has-no-teeth', dict(c, g='m-unreversed'),
                                   'mirroring the map without reversing the wire changed nothing', dev, '> 1e-3'))
    r['nontrivial'] = True
    r['info'] = {'worst_K': worst, 'steps': n}
    r['outcome'] = 'ok' if not V else 'violation'
    return r


# ----------------------------------------------------------------------
def hex_positions(nring):
    """xy of the DASSH position indices (own formula: ring walk starting on the +x axis, counter-clockwise)"""
    pts = [(0.0, 0.0)]
    for ring in range(1, nring):
        x, y = float(ring), 0.0
        dirs = [2 * math.pi / 3, math.pi, 4 * math.pi / 3, 5 * math.pi / 3, 0.0, math.pi / 3]
        pts.append((x, y))
        d = 0
        npos = 6 * ring
        for pos in range(1, npos):
            x += math.cos(dirs[d])
            y += math.sin(dirs[d])
            pts.append((x, y))
            if pos % ring == 0:
                d += 1
    return np.array(pts)


def gap_cell_xy(core, centers):
    """coordinate of every (assembly, local gap cell): assembly centre + midpoint of the cell on the outer
    duct hexagon, walked clockwise from the top corner (as _asm_sc_xbnds does)"""
    s = core.duct_oftf / math.sqrt(3.0)
    per = 6.0 * s
    corners = [np.array([s * math.cos(math.pi / 2 - k * math.pi / 3), s * math.sin(math.pi / 2 - k * math.pi / 3)])
               for k in range(7)]

    def at(x):
        x = x % per
        k = int(x // s)
        f = (x - k * s) / s
        return corners[k] + f * (corners[k + 1] - corners[k])
    out = []
    for a in range(core.n_asm):
        idx = np.where(core._asm_sc_adj[a] > 0)[0]
        xb = core._asm_sc_xbnds[a][idx]
        pts = []
        for j in range(len(idx)):
            lo = xb[j]
            hi = xb[j + 1] if j < len(idx) - 1 else xb[0] + per
            pts.append(centers[a] + at(0.5 * (lo + hi)))
        out.append(np.array(pts))
    return out


def run_core(c):
    r = new_result()
    V = r['violations']
    lay = c['layout']
    nring = 2 if len(lay) == 7 else 3
    pos = S.core_positions(nring)
    hx = hex_positions(nring)
    gm = c['gap_model']
    seed = c.get('seed', 0)
    # per-type coordinates and base power weights per position
    types = {t: tdesign({'A': 'single', 'B': 'B', 'D': 'bypass', 'S': 'six', 'T': 'one', 'U': 'U'}[t])
             for t in sorted(set(x for x in lay if x))}
    coord = {}
    for t in types:
        # (the low-fidelity type is the same bundle: its pin / cell coordinates are those of the pin-bundle build)
        tdef = tdesign('single') if t == 'U' else types[t]
        scn = {'setup': {}, 'core': {'inlet': 623.15, 'length': L, 'pitch': 0.064, 'gap_model': 'none', 'bypass_fraction': 0.0},
               'types': {t: tdef}, 'assign': [[t, 1, 1, {'flowrate': 1.0}]],
               'power': {'asm': {'1': {'rings': types[t]['num_rings'], 'nduct': len(types[t]['duct_ftf']) // 2,
                                       'cells': [0.0, L], 'q': 1.0, 'pins': 'uniform'}}}}
        with S.Built(scn) as b:
            reg = b.reactor().assemblies[0].rodded
            coord[t] = (reg.n_duct,) + power_arrays(reg, 1.0, 0)[1:]
    base_w = {}
    for i, t in enumerate(lay):
        if t:
            with_q = 6000.0 * (0.6 + 0.17 * ((i * 5) % 7))
            nduct, layt = coord[t]
            npin, nc, nd = len(layt['pins']), len(layt['cool']), len(layt['layer0'])
            base_w[i] = {'pins': weights(npin, seed + i, 0) * with_q,
                         'duct': np.concatenate([weights(nd, seed + i, 1 + d) for d in range(nduct)]) * with_q * 0.03 * npin / nd,
                         'cool': weights(nc, seed + i, 7) * with_q * 0.02 * npin / nc}

    def scn_for(layout, wmap, flows):
        assign, power = [], {}
        for i, t in enumerate(layout):
            if not t:
                continue
            ring, p = pos[i]
            fac_ = {'kg/min': 60.0, 'lb/hr': 3600.0 / 0.45359237}.get(c.get('mfr'), 1.0)
            assign.append([t, ring, p, {'flowrate': flows[i] * fac_}])
            power[str(i + 1)] = spec_from(wmap[i])
        if c.get('ranges'):
            # consecutive positions of one ring with the same type and flow written as ONE assignment line
            merged = []
            for a_ in sorted(assign, key=lambda x: (x[1], x[2])):
                m_ = merged[-1] if merged else None
                if m_ and m_[0] == a_[0] and m_[1] == a_[1] and m_[3] == a_[3] and (m_[4] if len(m_) > 4 else m_[2]) + 1 == a_[2]:
                    merged[-1] = [m_[0], m_[1], m_[2], m_[3], a_[2]]
                else:
                    merged.append(list(a_))
            assign = merged
        setup = {'param_update_tol': c['tol']} if c.get('tol') else {}
        if c.get('starved') is not None:
            setup['conv_approx'] = True
        if c.get('observe'):
            # everything that only reports switched on: energy-balance tally and all csv dumps at every plane
            setup['calc_energy_balance'] = True
            setup['Dump'] = {'coolant': True, 'duct': True, 'gap': True, 'average': True, 'maximum': True}
        return {'setup': setup, 'units': ({'mass_flow_rate': c['mfr']} if c.get('mfr') else None),
                'core': {'inlet': 623.15, 'length': L, 'pitch': 0.064, 'gap_model': gm,
                                          'bypass_fraction': 0.0 if gm == 'none' else 0.05,
                                          'coolant': c.get('coolant', 'sodium_se2anl_425')},
                'types': {t: types[t] for t in sorted(set(x for x in layout if x))},
                'assign': assign, 'power': {'asm': power}}
    flows0 = {i: round(0.8 + 0.11 * ((i * 3) % 7), 4) for i, t in enumerate(lay) if t}
    if c.get('ranges'):
        flows0 = {i: (1.0 if t == 'A' else 0.7) for i, t in enumerate(lay) if t}      # one flow per type
    if c.get('starved') is not None:
        # one assembly far below the others: with the low-flow convection approximation requested, only
        # that assembly falls under the cut-off, wherever the rotation puts it in the position order
        flows0[c['starved']] = 0.05
        base_w[c['starved']] = {k: v * 0.05 for k, v in base_w[c['starved']].items()}
    base, rx0, n = sweep_record(scn_for(lay, base_w, flows0))
    # binding of frames: the published assembly centres are the harness's hex positions x pitch,
    # and local side s (clockwise from the top corner) faces the neighbour listed for side s
    order0 = [i for i, t in enumerate(lay) if t]
    cen0 = [hx[i] * rx0.core.asm_pitch for i in order0]
    cxy = rx0.core.map_assembly_xy() if all(lay) else []
    if len(cxy) == len(hx):
        if float(np.max(np.abs(cxy - hx * rx0.core.asm_pitch))) > 1e-9:
            V.append(violation('frame-binding', c, 'published assembly centres differ from the hex lattice of the harness'))
    g0 = gap_cell_xy(rx0.core, cen0) if gm != 'none' else None
    r['states'] = n
    r['transitions'] = n * len(order0)
    r['traces'] = 1
    worst = 0.0
    for g in c['elements']:
        G = gmat(g)
        pp = perm_of(hx, G)
        lay2 = [None] * len(lay)
        w2, flows2 = {}, {}
        permmap = {}
        for i, t in enumerate(lay):
            if not t:
                continue
            j = int(pp[i])
            lay2[j] = t
            nduct, layt = coord[t]
            w2[j], permmap[i] = moved_power(base_w[i], layt, G, nduct)
            flows2[j] = flows0[i]
        got, rx2, n2 = sweep_record(scn_for(lay2, w2, flows2))
        r['traces'] += 1
        r['transitions'] += n2 * len(order0)
        if n2 != n:
            V.append(violation('mesh-differs', dict(c, g=str(g)), 'rotated core has a different axial mesh'))
            continue
        order2 = [i for i, t in enumerate(lay2) if t]
        cen2 = [hx[i] * rx2.core.asm_pitch for i in order2]
        g2 = gap_cell_xy(rx2.core, cen2) if gm != 'none' else None
        for (fb, gb), (fg, gg) in zip(base, got):
            for ai, i in enumerate(order0):
                aj = order2.index(int(pp[i]))
                for name, v in fb[ai].items():
                    if name.startswith('_'):
                        continue
                    p = field_perm(name, permmap[i], fb[ai], G)
                    dev = float(np.max(np.abs(move(v, p) - fg[aj][name])))
                    worst = max(worst, dev)
                    if dev > TOL:
                        V.append(violation('core-not-equivariant', dict(c, g=str(g), field=name),
                                           'assembly at position %d: field %s does not rotate with the core (element %s)'
                                           % (i, name, g), dev, 0.0, TOL))
                        break
                if V:
                    break
                if gb is not None:
                    # gap cells round assembly i <-> gap cells round its image, matched by coordinates
                    src = g0[ai] @ G.T
                    dst = g2[aj]
                    d = np.sqrt(((src[:, None, :] - dst[None, :, :]) ** 2).sum(axis=2))
                    q = np.argmin(d, axis=1)
                    if float(np.max(d[np.arange(len(src)), q])) > 1e-8 or len(set(q.tolist())) != len(src):
                        V.append(violation('gap-mesh-not-equivariant', dict(c, g=str(g)),
                                           'gap cells round position %d do not map onto the gap cells round its image' % i,
                                           float(np.max(d[np.arange(len(src)), q])), 0.0, 1e-8))
                        break
                    dev = float(np.max(np.abs(gb[ai] - gg[aj][q])))
                    worst = max(worst, dev)
                    if dev > TOL:
                        V.append(violation('gap-not-equivariant', dict(c, g=str(g)),
                                           'gap temperatures round position %d do not rotate with the core' % i,
                                           dev, 0.0, TOL))
                        break
            if V:
                break
        if V:
            break
    r['nontrivial'] = len(order0) > 1
    r['info'] = {'worst_K': worst, 'steps': n, 'assemblies': len(order0)}
    r['outcome'] = 'ok' if not V else 'violation'
    return r


# ----------------------------------------------------------------------
def cases(tier):
    asm, core = [], []
    elems = [1, 2, 3, 4, 5, 'm']
    ringset = (2, 3, 4) if tier == 'quick' else (2, 3, 4, 5)
    for rings in ringset:
        for kind in ('single', 'bypass', 'pins'):
            for wire in ('clockwise', 'counterclockwise'):
                for wall in ('none', 'flow'):
                    if tier == 'quick' and kind == 'pins' and rings == 4:
                        continue
                    asm.append(dict(rings=rings, kind=kind, wire=wire, wall=wall, elements=elems))
    for kind in ('six', 'one'):
        for wire in ('clockwise', 'counterclockwise'):
            for wall in ('none', 'flow'):
                asm.append(dict(rings=3, kind=kind, wire=wire, wall=wall, elements=elems))
    # pins that make no power in the lower half of the core and are heated above (among them the last pin)
    for rings in ((2, 3) if tier == 'quick' else ringset):
        for kind in (('single', 'pins') if tier == 'quick' else ('single', 'bypass', 'pins')):
            for wire in ('clockwise', 'counterclockwise'):
                asm.append(dict(rings=rings, kind=kind, wire=wire, wall='none', elements=elems, late=True))
    if tier == 'quick':
        lays = [['A'] * 7, ['A', 'B', 'A', 'B', 'A', 'B', 'A'], ['B', 'A', None, 'A', 'A', 'B', 'A'],
                [None, 'A', 'A', None, 'B', 'A', 'B'], ['A', 'D', 'B', None, 'A', 'A', 'B']]
        for lay in lays:
            for gm in ('flow', 'no_flow', 'duct_average'):
                core.append(dict(layout=lay, gap_model=gm, elements=[1, 2, 3, 4, 5]))
        core.append(dict(layout=(['A', 'B', 'A'] * 7)[:19], gap_model='flow', elements=[1, 3]))
        # several positions of one double-duct type with different flows (clones of one template)
        for gm in ('flow', 'none'):
            core.append(dict(layout=['D', 'D', 'A', 'D', 'B', 'D', 'A'], gap_model=gm, elements=[1, 2]))
        # bundles between un-rodded regions (six-sector model, single node) in uneven surroundings
        for lay in (['S', 'A', 'B', None, 'S', 'T', 'A'], ['T', 'S', 'S', 'B', None, 'A', 'S']):
            for gm in ('flow', 'no_flow'):
                core.append(dict(layout=lay, gap_model=gm, elements=[1, 2, 3]))
        # several low-fidelity assemblies of one type at different flows
        for gm in ('flow', 'none'):
            core.append(dict(layout=['U', 'A', 'U', 'B', 'U', 'A', 'U'], gap_model=gm, elements=[1, 2, 3]))
        # low-flow approximation requested, one starved assembly
        for st in (2, 5):
            core.append(dict(layout=['A'] * 7, gap_model='flow', elements=[1, 2, 3], starved=st))
        core.append(dict(layout=['A', 'B', 'A', 'B', 'A', 'B', 'A'], gap_model='none', elements=[1, 4], starved=3))
        # flow rates written in kg/min, cores with empty positions (every position's flow is converted)
        for lay in (['B', 'A', None, 'A', 'A', 'B', 'A'], [None, 'A', 'A', None, 'B', 'A', 'B']):
            core.append(dict(layout=lay, gap_model='flow', elements=[1, 2, 4], mfr='kg/min'))
        # runs of positions written as range lines (flows in kg/min / lb/hr): a rotation regroups the runs
        for lay in (['A', 'A', 'A', 'B', 'B', 'A', 'A'], ['B', 'A', 'A', 'A', None, 'B', 'B']):
            for mfr in ('kg/min', 'lb/hr'):
                core.append(dict(layout=lay, gap_model='flow', elements=[1, 3, 5], mfr=mfr, ranges=True))
        # the energy-balance tally and every csv dump on (reporting only)
        for lay in (['B', 'A', None, 'A', 'A', 'B', 'A'], ['A', 'D', 'B', None, 'A', 'A', 'B'],
                    ['S', 'A', 'B', None, 'S', 'T', 'A']):
            for gm in ('flow', 'no_flow'):
                core.append(dict(layout=lay, gap_model=gm, elements=[1, 2, 4], observe=True))
        lay19 = (['A', 'B', 'A', 'A', 'B'] * 4)[:19]
        for vac, gm in ((0, 'no_flow'), (4, 'duct_average'), (11, 'flow')):
            lay = list(lay19)
            lay[vac] = None
            core.append(dict(layout=lay, gap_model=gm, elements=[1, 2]))
        # temperature-dependent coolant, with and without the correlation-update tolerance
        for lay in (['A'] * 7, ['A', 'B', 'A', 'B', 'A', 'B', 'A']):
            for tol in (0.0, 0.01):
                for gm in ('flow', 'none'):
                    core.append(dict(layout=lay, gap_model=gm, elements=[1, 2], coolant='sodium', tol=tol))
    else:
        import itertools
        for combo in itertools.product([None, 'A', 'B'], repeat=7):
            if sum(1 for x in combo if x) < 2:
                continue
            core.append(dict(layout=list(combo), gap_model='flow', elements=[1, 2, 3, 4, 5]))
        for lay in ([['A'] * 7, ['A', 'B', 'A', 'B', 'A', 'B', 'A'], ['B', 'A', None, 'A', 'A', 'B', 'A'],
                     ['A', 'D', 'B', None, 'A', 'A', 'B'], ['D', 'D', 'A', 'B', 'D', None, 'A']]):
            for gm in ('no_flow', 'duct_average', 'none'):
                core.append(dict(layout=lay, gap_model=gm, elements=[1, 2, 3, 4, 5]))
        for lay in (['A'] * 7, ['A', 'B', 'A', 'B', 'A', 'B', 'A'], ['B', 'A', None, 'A', 'A', 'B', 'A']):
            for tol in (0.0, 0.01, 0.05):
                for gm in ('flow', 'none', 'no_flow'):
                    core.append(dict(layout=lay, gap_model=gm, elements=[1, 2, 3, 4, 5], coolant='sodium', tol=tol))
        for gm in ('flow', 'none', 'no_flow'):
            for lay in (['D', 'D', 'A', 'D', 'B', 'D', 'A'], ['D'] * 7, ['A', 'D', 'D', None, 'D', 'B', 'D']):
                core.append(dict(layout=lay, gap_model=gm, elements=[1, 2, 3, 4, 5]))
        for lay in (['S', 'A', 'B', None, 'S', 'T', 'A'], ['T', 'S', 'S', 'B', None, 'A', 'S'], ['S'] * 7,
                    ['A', 'S', None, 'T', 'B', 'S', 'A']):
            for gm in ('flow', 'no_flow', 'duct_average'):
                core.append(dict(layout=lay, gap_model=gm, elements=[1, 2, 3, 4, 5]))
        for st in range(7):
            for gm in ('flow', 'none'):
                core.append(dict(layout=['A'] * 7, gap_model=gm, elements=[1, 2, 3, 4, 5], starved=st))
                core.append(dict(layout=['A', 'B', 'A', 'B', 'A', 'B', 'A'], gap_model=gm, elements=[1, 2, 3, 4, 5],
                                 starved=st))
        for lay in (['B', 'A', None, 'A', 'A', 'B', 'A'], ['A', 'D', 'B', None, 'A', 'A', 'B'],
                    ['S', 'A', 'B', None, 'S', 'T', 'A'], ['A', 'S', None, 'T', 'B', 'S', 'A']):
            for gm in ('flow', 'no_flow', 'duct_average', 'none'):
                core.append(dict(layout=lay, gap_model=gm, elements=[1, 2, 3, 4, 5], observe=True))
        pat = (['A', 'B', 'A', 'A', 'B'] * 4)[:19]
        core.append(dict(layout=pat, gap_model='flow', elements=[1, 2, 3, 4, 5]))
        for vac in range(19):
            lay = list(pat)
            lay[vac] = None
            for gm in ('flow', 'no_flow', 'duct_average'):
                core.append(dict(layout=lay, gap_model=gm, elements=[1, 2]))
    return asm, core


def main(run):
    run.rule = ('assembly level: rings x (single duct, bypass, pin model; 3 rings: bundle between six-sector / single-node regions) x wire direction x wall x all 5 rotations and '
                'the mirror; core level: listed 7/19-position layouts (thorough: every subset x {A,B} with >= 2 '
                'assemblies) x gap model x rotations; non-trivial = asymmetric power map (all), cores with >= 2 assemblies')
    run.assumptions = ['permutations by nearest-point matching of published coordinates (hard assert < 1e-8 m, bijective)',
                       'VERIF_SEED selects the asymmetric filler maps only']
    asm, core = cases(run.tier)
    for c in asm + core:
        c['seed'] = run.seed % 4
    run.check_determinism(run_asm, asm[0], project=lambda r: (r['outcome'], r['states'], str(r.get('info'))))
    run.explore('asm', asm, run_asm, budget_s=600)
    run.explore('core', core, run_core, budget_s=900)
    t = run.extra.get('mirror_teeth_K') or []
    run.notes['mirror_without_wire_reversal_differs_by_K'] = [min(t), max(t)] if t else None


def replay(body):
    from ..run import guarded
    fn = run_asm if (body.get('part') or 'asm') == 'asm' else run_core
    c = {k: v for k, v in body['scenario'].items() if k not in ('g', 'field')}
    r = guarded(fn, c, 1800)
    for v in r['violations']:
        print('VIOLATION property=C07 replay=(inline) kind=%s %s observed=%s' % (v['kind'], v['what'], v.get('observed')))
    print('outcome', r['outcome'], r.get('info'))
    return 1 if r['violations'] else 0
