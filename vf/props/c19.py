"""C19  Hot-spot temperatures reduce to nominal and grow with uncertainty.

Part A  `tables`   real `hotspot.calculate_temps` on EVERY subfactor table with
        1-2 direct and 1-2 statistical rows over {1, 1.2} (table layout
        N_asm x N_subfactor x N_term; one "assembly" row per (table, rise
        vector)), every rise vector of {0, 5, 40}^n, input sigma 1..4,
        output sigma 0..4.
Part B  `reader`   generated CSV tables (numeric spellings, six expression
        forms at every cell, BOM / case / newline variants), `builtin`
        (the five shipped tables and the two test tables) and `tablecls`
        (malformed / odd tables) through the real `_read_hcf_table`,
        `_split_clad_subfactors`, `_evaluate_hcf_expr` and the real `analyze`
        on a stub reactor carrying a `_peak` record.
Part C  `sweep`    real Reactor sweeps (FuelModel / PinModel, 2-3 rings, 1-3
        assemblies of the type + a second type in between, several power
        shapes) with a recorder round `Assembly.calculate`; real
        `hotspot.analyze` for all six locations with harness-written unity /
        >1 / expression tables or the built-in ones.
        `nopin`    hot-spot requests on assemblies without a pin model (F11).
        `report`   the same sweeps run to the end (real `Reactor.postprocess`,
        summary written to dassh.out) with temperature unit kelvin, celsius
        and fahrenheit: the REPORTED hot-spot columns ("Peak + Unc." of the
        coolant table, "N-Sigma Peak Temps" of the five peak pin tables) are
        parsed and must be the unit-converted `hotspot.analyze` values (= the
        reference sum) to print precision; printed nominal peaks likewise;
        unity table -> printed hot spot == printed nominal; factors >= 1 ->
        printed hot spot >= printed nominal.

Reference model (harness, explicit loops, no cumsum/prod):
    z_k   = dT_k * prod_i D_ik
    T0_k  = T_in + sum_{j<=k} z_j
    U_k   = sqrt( sum_s ( sum_{j<=k} z_j (S_sj - 1) )^2 )
    T_k   = T0_k + out/in * U_k
"""
import itertools
import math
import os
import shutil
import tempfile

import numpy as np

from ..run import new_result, violation, site_of, guarded
from .. import scenario as S
from .. import REPO

EPS = float(np.finfo(float).eps)
T_IN = 623.15
RISES = (0.0, 5.0, 40.0)
IN_SIG = (1, 2, 3, 4)
OUT_SIG = (0, 1, 2, 3, 4)
LOCS = ['coolant', 'clad_od', 'clad_mw', 'clad_id', 'fuel_od', 'fuel_cl']
NTERMS = {k: i + 1 for i, k in enumerate(LOCS)}          # rise columns per location
COLS_NEEDED = {'coolant': 3, 'clad_od': 4, 'clad_mw': 5, 'clad_id': 5,
               'fuel_od': 6, 'fuel_cl': 7}                # CSV columns (statement of the docs)
SPLIT = ('clad_id', 'fuel_od', 'fuel_cl')
PINCOL = {'clad_od': 4, 'clad_mw': 5, 'clad_id': 6, 'fuel_od': 7, 'fuel_cl': 8}
HEAD = ['Subfactor', 'Type', 'Coolant', 'Film', 'Cladding', 'Gap', 'Fuel']
# round-off: every reported temperature is the result of < 64 rounded
# operations on numbers of magnitude <= scale (= largest |T| in the batch)
ULPS = 64.0


# ----------------------------------------------------------------------
# reference model
def _reference(t_in, dT, D, Sx):
    """dT (N, n); D (N, nd, n); Sx (N, ns, n) -> nominal, z, T0, U  (all (N, n))"""
    N, n = dT.shape
    prod = np.ones((N, n))
    for i in range(D.shape[1]):
        prod = prod * D[:, i, :]
    z = dT * prod
    nom = np.empty((N, n))
    T0 = np.empty((N, n))
    U = np.empty((N, n))
    a_nom = np.full(N, float(t_in))
    a0 = np.full(N, float(t_in))
    c = np.zeros((N, Sx.shape[1]))
    for k in range(n):
        a_nom = a_nom + dT[:, k]
        nom[:, k] = a_nom
        a0 = a0 + z[:, k]
        T0[:, k] = a0
        c = c + z[:, k, None] * (Sx[:, :, k] - 1.0)
        U[:, k] = np.sqrt(np.sum(c * c, axis=1))
    return nom, z, T0, U


# ======================================================================
# Part A: table algebra
_RISE_CACHE = {}


def _rise_vectors(n, base=3):
    """all vectors of {0,5,40}^n (base 3) or {0,40}^n (base 2); first rise slowest"""
    if (n, base) not in _RISE_CACHE:
        alpha = RISES if base == 3 else (RISES[0], RISES[-1])
        _RISE_CACHE[(n, base)] = np.array(list(itertools.product(alpha, repeat=n)), dtype=float)
    return _RISE_CACHE[(n, base)]


def _tables(cols, nd, ns, lo, hi, split):
    """tables lo..hi-1 of the 2^(cols*(nd+ns)) tables over {1, 1.2}; bit
    (row*cols + col) of the index selects 1.2; direct rows first.  With
    `split` the cladding column is duplicated (layout produced by
    _split_clad_subfactors) -> cols+1 terms."""
    r = nd + ns
    idx = np.arange(lo, hi, dtype=np.int64)
    bits = (idx[:, None] >> np.arange(cols * r, dtype=np.int64)[None, :]) & 1
    F = np.where(bits == 1, 1.2, 1.0).reshape(len(idx), r, cols)
    if split:
        F = np.concatenate([F[:, :, :3], F[:, :, 2:]], axis=2)
    return np.ascontiguousarray(F[:, :nd, :]), np.ascontiguousarray(F[:, nd:, :])


def cases_tables(tier):
    """plan rows: (table columns, clad column split, [(direct, statistical)], rise base)"""
    allrc = [(1, 1), (1, 2), (2, 1), (2, 2)]
    if tier == 'quick':
        plan = [(1, False, allrc, 3), (2, False, allrc, 3), (3, False, allrc, 3),
                (4, False, allrc[:3], 3), (5, False, allrc[:1], 3), (5, True, allrc[:1], 3)]
    else:
        plan = [(1, False, allrc, 3), (2, False, allrc, 3), (3, False, allrc, 3),
                (4, False, allrc, 3), (5, False, allrc, 3), (5, True, allrc[:3], 3)]
    out = []
    for cols, split, rcs, base in plan:
        n = cols + (1 if split else 0)
        R = base ** n
        per = max(1, 240000 // R)
        for nd, ns in rcs:
            ntab = 2 ** (cols * (nd + ns))
            lo = 0
            while lo < ntab:
                hi = min(ntab, lo + per)
                out.append({'part': 'tables', 'cols': cols, 'split': split, 'nd': nd,
                            'ns': ns, 'rise_base': base, 't_lo': lo, 't_hi': hi})
                lo = hi
    return out


SUB_ROWS = 6000      # rows per calculate_temps call (cache-sized batches)


def run_tables(c):
    """a case is a contiguous block of table indices; it is evaluated in
    sub-blocks of about SUB_ROWS (table, rise vector) rows"""
    n = c['cols'] + (1 if c['split'] else 0)
    per = max(1, SUB_ROWS // int(c.get('rise_base', 3)) ** n)
    tot = new_result()
    tot['extra'] = {'A_tables': 0, 'A_rows': 0, 'A_evaluations': 0,
                    'A_unity_entries_bit_exact': 0, 'A_violating_rows': {}}
    worst, tol, kinds = 0.0, 0.0, set()
    lo = c['t_lo']
    while lo < c['t_hi']:
        hi = min(c['t_hi'], lo + per)
        r = _run_tables_block(dict(c, t_lo=lo, t_hi=hi))
        lo = hi
        for k in ('states', 'transitions', 'traces'):
            tot[k] += r[k]
        tot['nontrivial'] = tot['nontrivial'] or r['nontrivial']
        for v in r['violations']:
            if v['kind'] not in kinds:
                kinds.add(v['kind'])
                tot['violations'].append(v)
        for k, v in r['extra'].items():
            if isinstance(v, dict):
                d = tot['extra'].setdefault(k, {})
                for kk, vv in v.items():
                    d[kk] = d.get(kk, 0) + vv
            else:
                tot['extra'][k] = tot['extra'].get(k, 0) + v
        if r['info']:
            worst = max(worst, r['info']['worst_ref_err'])
            tol = max(tol, r['info']['tol'])
        if r['outcome'] not in ('ok', 'violated'):
            tot['outcome'] = r['outcome']
            return tot
    tot['outcome'] = 'ok' if not tot['violations'] else 'violated'
    tot['info'] = {'rows': tot['states'], 'terms': n, 'worst_ref_err': worst, 'tol': tol}
    return tot


def _run_tables_block(c):
    from dassh import hotspot
    r = new_result()
    V = r['violations']
    cols, nd, ns, split = c['cols'], c['nd'], c['ns'], bool(c['split'])
    lo, hi = c['t_lo'], c['t_hi']
    D, Sx = _tables(cols, nd, ns, lo, hi, split)
    T = hi - lo
    n = D.shape[2]
    B = int(c.get('rise_base', 3))
    rises = _rise_vectors(n, B)
    R = len(rises)
    Dr = np.repeat(D, R, axis=0)
    Sr = np.repeat(Sx, R, axis=0)
    dT = np.tile(rises, (T, 1))
    N = T * R
    nom, z, T0, U = _reference(T_IN, dT, Dr, Sr)
    q = np.sqrt(np.sum((Sr - 1.0) ** 2, axis=1))            # (N, n) own statistical spread
    scale = float(np.max(T0) + 4.0 * np.max(U))
    tol = ULPS * EPS * scale
    seen = set()
    counts = {}

    def witness(row, i, o):
        t = lo + row // R
        return dict(c, t_lo=int(t), t_hi=int(t + 1),
                    table=int(t), rise=[float(x) for x in dT[row]],
                    direct=Dr[row].tolist(), statistical=Sr[row].tolist(),
                    in_sigma=i, out_sigma=o)

    def flag(kind, bad, what, obs, exp, i, o, t=None):
        """bad: boolean (N,) or (N, n)"""
        if not bad.any():
            return
        rows = np.nonzero(bad.any(axis=1) if bad.ndim == 2 else bad)[0]
        counts[kind] = counts.get(kind, 0) + int(len(rows))
        if kind in seen:
            return
        seen.add(kind)
        row = int(rows[0])
        V.append(violation(kind, witness(row, i, o), what,
                           np.asarray(obs[row]).tolist(), np.asarray(exp[row]).tolist(),
                           tol if t is None else t))

    hcf = {'direct': Dr, 'statistical': Sr}
    chk = (float(Dr.sum()), float(Sr.sum()), float(dT.sum()))
    res = {}
    for i in IN_SIG:
        for o in OUT_SIG:
            try:
                out = hotspot.calculate_temps(T_IN, dT, hcf, IN_sigma=i, OUT_sigma=o)
            except Exception as e:
                V.append(violation('calculate-exception', witness(0, i, o),
                                   '%s: %s' % (type(e).__name__, e), site=site_of(e)))
                r['outcome'] = 'exception'
                return r
            r['transitions'] += 1
            out = np.asarray(out, dtype=float)
            if out.shape != (N, n):
                V.append(violation('result-shape', witness(0, i, o),
                                   'calculate_temps returned shape %s' % (out.shape,),
                                   list(out.shape), [N, n]))
                r['outcome'] = 'shape'
                return r
            res[(i, o)] = out
    if (float(Dr.sum()), float(Sr.sum()), float(dT.sum())) != chk:
        V.append(violation('input-mutated', witness(0, 0, 0),
                           'calculate_temps modified its arguments'))
    worst_ref = 0.0
    unity_exact = 0
    zero = np.zeros((N, n))
    tin_col = np.full((N, 1), T_IN)
    base = res[(1, 1)] - res[(1, 0)]
    for i in IN_SIG:
        for o in OUT_SIG:
            out = res[(i, o)]
            fin = np.isfinite(out)
            if not fin.all():
                flag('non-finite', ~fin, 'hot-spot temperature is not finite', out, nom, i, o)
                continue
            ref = T0 + (float(o) / float(i)) * U
            err = np.abs(out - ref)
            worst_ref = max(worst_ref, float(err.max()))
            # O7 semistatistical reference
            flag('reference-mismatch', err > tol,
                 'hot-spot temperatures differ from the semistatistical horizontal sum',
                 out, ref, i, o)
            # O1 unity table -> nominal
            if lo == 0:
                u = np.abs(out[:R] - nom[:R])
                unity_exact += int(np.sum(out[:R] == nom[:R]))
                if (u > tol).any():
                    bad = np.zeros(N, dtype=bool)
                    bad[:R] = (u > tol).any(axis=1)
                    flag('unity-not-nominal', bad,
                         'all subfactors are one but hot-spot != nominal temperatures',
                         out, nom, i, o)
            # O2 never below nominal
            flag('below-nominal', out < nom - tol,
                 'all factors >= 1 but a hot-spot temperature is below nominal', out, nom, i, o)
            # O5 reported sequence non-decreasing (rises >= 0, factors >= 1)
            seq = np.diff(np.concatenate([tin_col, out], axis=1), axis=1)
            flag('sequence-decreasing', seq < -tol,
                 'reported sequence (coolant, clad.., fuel) decreases', out, nom, i, o)
            # O6a an entry does not depend on the rises after it
            for k in range(n - 1):
                a = out[:, k].reshape(T, B ** (k + 1), B ** (n - k - 1))
                if (a != a[:, :, :1]).any():      # bit-identical is the normal case
                    dev = np.abs(a - a[:, :, :1]).reshape(N)
                    flag('depends-on-later-rise', dev > tol,
                         'entry %d changes when only a later rise is varied' % k, out, nom, i, o)
            # O6b each entry adds its own rise: increment bounded by functions
            # of its own rise and own factors only
            up = z * (1.0 + (float(o) / float(i)) * q)
            flag('increment-below-own-rise', seq < z - 2 * tol,
                 'an entry adds less than its own (direct-factored) rise', seq, z, i, o, 2 * tol)
            flag('increment-above-own-bound', seq > up + 2 * tol,
                 'an entry adds more than own rise x direct x (1 + out/in |S-1|)', seq, up, i, o,
                 2 * tol)
            if o == 0 or ns == 1:
                # exact form: increment is a function of own rise / factors only
                own = z * (1.0 + (float(o) / float(i)) * (Sr[:, 0, :] - 1.0)) if o else z
                flag('increment-not-own', np.abs(seq - own) > 2 * tol,
                     'increment of an entry is not its own rise x own factors', seq, own, i, o,
                     2 * tol)
                for k in range(n):
                    b = seq[:, k].reshape(T, B ** k, B, B ** (n - k - 1))
                    if (b != b[:, :1, :, :1]).any():
                        dev = np.abs(b - b[:, :1, :, :1]).reshape(N)
                        flag('increment-varies-with-other-rise', dev > 2 * tol,
                             'increment %d changes when only another rise is varied' % k,
                             seq, own, i, o, 2 * tol)
            # O3 monotone in the output confidence level
            if o + 1 in OUT_SIG:
                d = res[(i, o + 1)] - out
                flag('not-monotone-output-sigma', d < -tol,
                     'hot-spot temperature decreases from output sigma %d to %d' % (o, o + 1),
                     res[(i, o + 1)], out, i, o)
                flag('not-increasing-output-sigma', (U > 1e-9) & (d <= 0.0),
                     'statistical part present but no increase with output sigma',
                     res[(i, o + 1)], out, i, o, 0.0)
            # O4 scales inversely with the input confidence level
            if i + 1 in IN_SIG:
                d = res[(i + 1, o)] - out
                flag('not-antitone-input-sigma', d > tol,
                     'hot-spot temperature increases with the input sigma',
                     res[(i + 1, o)], out, i, o)
            if o >= 1:
                stat = (out - res[(i, 0)]) * (float(i) / float(o))
                flag('not-proportional-out-over-in', np.abs(stat - base) > 8 * tol,
                     'statistical part x in/out differs from its value at in=out=1',
                     stat, base, i, o, 8 * tol)
    # input_sigma = 0 (allowed by the template): information only
    info0 = {}
    if lo == 0:
        nf = 0
        with np.errstate(all='ignore'):
            for o in OUT_SIG:
                try:
                    out = hotspot.calculate_temps(T_IN, dT, hcf, IN_sigma=0, OUT_sigma=o)
                    nf += int(np.sum(~np.isfinite(np.asarray(out, dtype=float))))
                except Exception as e:
                    info0['exc:' + type(e).__name__] = info0.get('exc:' + type(e).__name__, 0) + 1
        info0['entries'] = int(N * n * len(OUT_SIG))
        info0['non_finite'] = nf
    r['states'] = N
    r['traces'] = N * len(IN_SIG) * len(OUT_SIG)
    r['nontrivial'] = bool((np.abs(res[(1, 4)] - nom) > tol).any())
    r['outcome'] = 'ok' if not V else 'violated'
    r['extra'] = {'A_tables': T, 'A_rows': N, 'A_evaluations': r['traces'],
                  'A_unity_entries_bit_exact': unity_exact, 'A_violating_rows': counts}
    if info0:
        r['extra']['A_input_sigma_0'] = info0
    r['info'] = {'rows': N, 'terms': n, 'worst_ref_err': worst_ref, 'tol': tol}
    return r


# ======================================================================
# Part B: table reading
def _f_loop(d):
    return 1 + 7.4 * 5 / 9 / d


def _f_rx(d):
    return 1 + (3 / d) * math.sqrt(0.002304 * d ** 2 - 0.384 * d + 121)


def _f_rx59(d):
    x = d * 5 / 9
    return 1 + (3 / x) * math.sqrt(0.002304 * x ** 2 - 0.384 * x + 121)


def _f_lin(d):
    return 1 + 0.001 * d


def _f_absrel(d):
    return 1 + math.sqrt((0.05 * d) ** 2) / d


def _f_const(d):
    return 1 + 0.1 * 2


FORMS = {
    'loop': ('1 + 7.4 * 5 / 9 / dT', _f_loop),
    'rx': ('1 + (3 / dT) * np.sqrt(0.002304 * dT**2 - 0.384 * dT + 121)', _f_rx),
    'rx59': ('1 + (3 / (dT * 5 / 9)) * np.sqrt(0.002304 * (dT * 5 / 9)**2 '
             '- 0.384 * (dT * 5 / 9) + 121)', _f_rx59),
    'lin': ('1 + 0.001 * dT', _f_lin),
    'absrel': ('1 + np.sqrt((0.05 * dT)**2) / dT', _f_absrel),
    'const': ('1 + 0.1 * 2', _f_const),
}
FORM_BY_TEXT = {v[0]: k for k, v in FORMS.items()}
NUMTXT = ['1', '1.2', '1.20', '1.2e0', ' 1.2', '1.0', '1.05', '1.5']


def _feval(form, d):
    """harness evaluation of one expression cell; a division by zero (inf or
    nan in numpy) is replaced by 1.0 as the code documents ("Remove np.infs
    and np.nans")."""
    try:
        v = FORMS[form][1](float(d))
    except ZeroDivisionError:
        return 1.0
    if math.isinf(v) or math.isnan(v):
        return 1.0
    return v


def _own_factors(rows, loc, dT):
    """rows: [(kind, [cell...])], cell = float | form name (CSV column order).
    Returns direct (N, nd, n), statistical (N, ns, n) as the location uses
    them: cladding column applied to both cladding halves, cropped to the
    number of rises of the location."""
    N = dT.shape[0]
    n = NTERMS[loc]
    out = {'direct': [], 'statistical': []}
    for kind, cells in rows:
        cc = list(cells)
        if loc in SPLIT:
            cc = cc[:3] + cc[2:]
        cc = cc[:n]
        vals = np.ones((N, n))
        for j, cell in enumerate(cc):
            if isinstance(cell, str):
                for a in range(N):
                    vals[a, j] = _feval(cell, dT[a, j])
            else:
                vals[:, j] = float(cell)
        out[kind].append(vals)
    res = []
    for k in ('direct', 'statistical'):
        if out[k]:
            res.append(np.stack(out[k], axis=1))
        else:
            res.append(np.ones((N, 0, n)))
    return res[0], res[1]


def _csv_text(rows, m, bom=False, lower=False, tail=True, eol='\n', names=None):
    lines = [','.join(HEAD[:m + 2])]
    for ri, (kind, cells) in enumerate(rows):
        typ = kind if lower else kind.capitalize()
        nm = names[ri] if names else 'sf %d' % ri
        txt = []
        for cell in cells:
            if isinstance(cell, tuple):        # (text, value) numeric spelling
                txt.append(cell[0])
            elif isinstance(cell, str):
                txt.append(FORMS[cell][0] if cell in FORMS else cell)
            else:
                txt.append(repr(float(cell)))
        lines.append(','.join([nm, typ] + txt))
    s = eol.join(lines) + (eol if tail else '')
    return ('\ufeff' if bom else '') + s


def _plain(rows):
    """drop the spelling from numeric cells"""
    return [(k, [float(c[0]) if isinstance(c, tuple) else c for c in cells]) for k, cells in rows]


class _Stub(object):
    pass


def _stub_reactor(spec, temps_by_asm):
    """spec: {type: {loc: (path, in, out)}}; temps_by_asm: [(id, type, dT row)]"""
    r = _Stub()
    r.inlet_temp = T_IN
    r._options = {'hotspot': {}}
    for name, d in spec.items():
        r._options['hotspot'][name] = {
            loc: {'input_sigma': v[1], 'output_sigma': v[2], 'subfactors': v[0]}
            for loc, v in d.items()}
    r.assemblies = []
    exp = {}
    for aid, name, d in temps_by_asm:
        a = _Stub()
        a.id = aid
        a.name = name
        t = [T_IN]
        for x in d:
            t.append(t[-1] + float(x))
        t = t + [t[-1]] * (7 - len(t))
        row = [float(aid), 0.3, 1.0] + t[1:7]
        a._peak = {'cool': (t[1], 0.3), 'pin': {}}
        for k, col in PINCOL.items():
            a._peak['pin'][k] = [row[col], col, list(row)]
        r.assemblies.append(a)
        exp[aid] = np.diff(np.array(t))          # the rises dassh can recover
    return r, exp


def _dT_sets(n):
    a = [40.0, 5.0, 40.0, 5.0, 40.0, 5.0][:n]
    b = [5.0, 40.0, 5.0, 40.0, 5.0, 40.0][:n]
    return [a, b, [0.0] * n]


def cases_reader(tier):
    fmts = [(False, False, True), (True, True, False)]
    if tier == 'thorough':
        fmts = [(b, l, t) for b in (False, True) for l in (False, True) for t in (True, False)]
    out = []
    for loc in LOCS:
        for m in range(COLS_NEEDED[loc] - 2, 6):
            for nd in (1, 2):
                for ns in (1, 2):
                    for fi, (bom, lower, tail) in enumerate(fmts):
                        out.append({'part': 'reader', 'loc': loc, 'cols': m, 'nd': nd, 'ns': ns,
                                    'bom': bom, 'lower': lower, 'tail': tail})
    return out


def _reader_variants(c):
    if 'form' in c:
        return [(c['form'], c.get('erow', 0), c.get('ecol', 0))]
    v = [(None, 0, 0)]
    for f in sorted(FORMS):
        for i in range(c['nd'] + c['ns']):
            for j in range(c['cols']):
                v.append((f, i, j))
    return v


def _post_split_cols(loc, j):
    if loc not in SPLIT or j < 2:
        return [j]
    if j == 2:
        return [2, 3]
    return [j + 1]


def run_reader(c):
    from dassh import hotspot
    r = new_result()
    V = r['violations']
    loc, m, nd, ns = c['loc'], c['cols'], c['nd'], c['ns']
    n = NTERMS[loc]
    tmp = tempfile.mkdtemp(prefix='vf_c19_', dir=os.environ.get('VERIF_TMP'))
    hist = {}
    try:
        for vi, (form, erow, ecol) in enumerate(_reader_variants(c)):
            sc = dict(c, form=form or 'none', erow=erow, ecol=ecol)
            rows = []
            for i in range(nd + ns):
                kind = 'direct' if i < nd else 'statistical'
                cells = []
                for j in range(m):
                    t = NUMTXT[(3 * i + 5 * j + vi) % len(NUMTXT)]
                    cells.append((t, float(t)))
                if form is not None and i == erow:
                    cells[ecol] = form
                rows.append((kind, cells))
            path = os.path.join(tmp, 't%d.csv' % vi)
            with open(path, 'w', encoding='utf-8') as f:
                f.write(_csv_text(rows, m, bom=c['bom'], lower=c['lower'], tail=c['tail']))
            prow = _plain(rows)
            beyond = form is not None and max(_post_split_cols(loc, ecol)) >= n
            cls = ('beyond' if beyond else 'const' if form == 'const' else
                   'nanform' if form == 'absrel' else 'plain')
            sc['cls'] = cls
            oc = _reader_one(hotspot, sc, path, prow, loc, m, nd, ns, form, erow, ecol, V, r)
            hist[cls + ':' + oc] = hist.get(cls + ':' + oc, 0) + 1
    finally:
        shutil.rmtree(tmp, ignore_errors=True)
    r['nontrivial'] = True
    r['outcome'] = 'ok' if not V else 'violated'
    r['extra'] = {'B_reader_outcomes': hist}
    r['info'] = {'variants': sum(hist.values())}
    return r


def _exc_kind(cls, stage):
    return {'const': 'constant-expression-crash', 'beyond': 'expression-beyond-location-crash'
            }.get(cls, 'reader-exception') if stage != 'reject' else 'valid-table-rejected'


def _reader_one(hotspot, sc, path, prow, loc, m, nd, ns, form, erow, ecol, V, r):
    n = NTERMS[loc]
    cls = sc['cls']
    dsets = _dT_sets(n)
    reac, exp_dT = _stub_reactor({'A': {loc: (path, 3, 2)}},
                                 [(i, 'A', d) for i, d in enumerate(dsets)])
    dT = np.array([exp_dT[i][:n] for i in range(len(dsets))])
    expD, expS = _own_factors(prow, loc, dT)
    failed = False
    # --- read
    try:
        subf, expr = hotspot._read_hcf_table(path, COLS_NEEDED[loc])
        r['transitions'] += 1
    except SystemExit:
        V.append(violation('valid-table-rejected', sc, 'well-formed table rejected by _read_hcf_table',
                           site='SystemExit@hotspot.py:_read_hcf_table'))
        return 'rejected'
    except Exception as e:
        V.append(violation('reader-exception', sc, '%s: %s' % (type(e).__name__, e), site=site_of(e)))
        return 'read-exc'
    ok = (subf['direct'].shape == (nd, m) and subf['statistical'].shape == (ns, m))
    exp_expr = {}
    if ok:
        for i, (kind, cells) in enumerate(prow):
            ki = i if kind == 'direct' else i - nd
            for j, cell in enumerate(cells):
                got = subf[kind][ki, j]
                if isinstance(cell, str):
                    exp_expr[(kind, ki, j)] = FORMS[cell][0]
                    ok = ok and bool(np.isnan(got))
                else:
                    ok = ok and (got == cell)
    if not ok or dict(expr) != exp_expr:
        V.append(violation('parsed-table-mismatch', sc, 'parsed numeric cells / expression map differ '
                           'from the harness reading of the same CSV',
                           [subf['direct'].tolist(), subf['statistical'].tolist(),
                            sorted((list(k), v) for k, v in expr.items())],
                           [p for p in prow]))
        return 'parse-mismatch'
    # --- clad split
    if loc in SPLIT:
        try:
            s2, e2 = hotspot._split_clad_subfactors(
                {k: v.copy() for k, v in subf.items()}, dict(expr))
            r['transitions'] += 1
        except Exception as e:
            V.append(violation('split-exception', sc, '%s: %s' % (type(e).__name__, e),
                               site=site_of(e)))
            return 'split-exc'
        good = True
        for k in ('direct', 'statistical'):
            a, b = subf[k], s2[k]
            good = good and b.shape == (a.shape[0], m + 1)
            if good:
                good = (_nan_eq(b[:, :3], a[:, :3]) and _nan_eq(b[:, 3:], a[:, 2:]))
        e_exp = {}
        for (kind, ki, j), txt in exp_expr.items():
            for jj in _post_split_cols(loc, j):
                e_exp[(kind, ki, jj)] = txt
        if not good or dict(e2) != e_exp:
            V.append(violation('clad-split-structure', sc, 'split table is not (coolant, film, clad, '
                               'clad, gap, fuel) of the original', [s2['direct'].tolist(),
                                                                    s2['statistical'].tolist(),
                                                                    sorted((list(k), v) for k, v in e2.items())],
                               [subf['direct'].tolist(), subf['statistical'].tolist()]))
            return 'split-mismatch'
        subf, expr = s2, e2
    # --- expression evaluation on the rises of the location
    ev = None
    try:
        ev = hotspot._evaluate_hcf_expr({k: v.copy() for k, v in subf.items()}, dict(expr), dT.copy())
        r['transitions'] += 1
    except SystemExit:
        V.append(violation('valid-table-rejected', sc, 'SystemExit in _evaluate_hcf_expr',
                           site='SystemExit@hotspot.py:_evaluate_hcf_expr'))
        failed = True
    except Exception as e:
        V.append(violation(_exc_kind(cls, 'eval'), sc, '%s: %s' % (type(e).__name__, e),
                           site=site_of(e)))
        failed = True
    if ev is not None:
        gotD = ev['direct'][:, :, :n]
        gotS = ev['statistical'][:, :, :n]
        for got, exp, nm in ((gotD, expD, 'direct'), (gotS, expS, 'statistical')):
            if got.shape != exp.shape:
                V.append(violation('factor-mismatch', sc, '%s factor array shape' % nm,
                                   list(got.shape), list(exp.shape)))
                failed = True
                continue
            if np.isnan(got).any():
                V.append(violation('nan-subfactor', sc, 'evaluated %s subfactor is NaN (0/0 at zero '
                                   'rise is not replaced by 1 although the code says so)' % nm,
                                   got.tolist(), exp.tolist(), site='hotspot.py:_eval_expr'))
                failed = True
                continue
            # both sides evaluate the same closed form in IEEE doubles: a few ulp
            if (np.abs(got - exp) > 16 * EPS * np.abs(exp)).any():
                V.append(violation('factor-mismatch', sc, 'evaluated %s subfactors differ from the '
                                   'harness evaluation of the same cells' % nm,
                                   got.tolist(), exp.tolist(), 16 * EPS))
                failed = True
    # --- the real analyze on the stub reactor
    r['states'] += len(dsets)
    try:
        out = hotspot.analyze(reac)
        r['transitions'] += 1
    except SystemExit:
        if not failed:
            V.append(violation('valid-table-rejected', sc, 'SystemExit in analyze',
                               site='SystemExit@hotspot.py:analyze'))
        return 'analyze-exit'
    except Exception as e:
        if not failed:
            V.append(violation(_exc_kind(cls, 'analyze'), sc, '%s: %s' % (type(e).__name__, e),
                               site=site_of(e)))
        return 'analyze-exc:' + type(e).__name__
    if failed:
        return 'factor-fail'
    temps, ids = out
    nom, z, T0, U = _reference(T_IN, dT, expD, expS)
    ref = T0 + (2.0 / 3.0) * U
    got = np.asarray(temps.get(loc))
    tol = ULPS * EPS * float(np.max(ref))
    r['traces'] += len(dsets)
    if list(ids.get(loc, [])) != list(range(len(dsets))) or got.shape != ref.shape:
        V.append(violation('analyze-structure', sc, 'analyze ids / shape', [ids, list(got.shape)],
                           [list(range(len(dsets))), list(ref.shape)]))
        return 'structure'
    if not np.isfinite(got).all() or (np.abs(got - ref) > tol).any():
        V.append(violation('analyze-mismatch', sc, 'analyze result differs from the reference sum '
                           'with the harness-evaluated factors', got.tolist(), ref.tolist(), tol))
        return 'mismatch'
    return 'ok'


def _nan_eq(a, b):
    return a.shape == b.shape and bool(np.all((a == b) | (np.isnan(a) & np.isnan(b))))


# ---- built-in tables --------------------------------------------------
def _table_files():
    from dassh import hotspot
    out = []
    for nm in hotspot._BUILTINS:
        out.append((nm, os.path.join(hotspot._ROOT, 'data', 'hcf_' + nm + '.csv')))
    for nm in ('hcf_input_clad', 'hcf_input_fuel'):
        out.append((nm, os.path.join(REPO, 'tests', 'test_data', nm + '.csv')))
    return out


def _own_parse(path):
    """independent reading of a CSV table: [(kind, [float | form name])], m"""
    with open(path, 'rb') as f:
        raw = f.read()
    if raw[:3] == b'\xef\xbb\xbf':
        raw = raw[3:]
    lines = [ln for ln in raw.decode('utf-8').replace('\r\n', '\n').split('\n') if ln != '']
    m = len(lines[0].split(',')) - 2
    rows = []
    for ln in lines[1:]:
        cells = ln.split(',')
        kind = cells[1].strip().lower()
        vals = []
        for x in cells[2:2 + m]:
            try:
                vals.append(float(x))
            except ValueError:
                vals.append(FORM_BY_TEXT[x])      # KeyError = harness does not know the text
        rows.append((kind, vals))
    return rows, m


def cases_builtin(tier):
    out = []
    for nm in ['crbr_blanket_clad_mw', 'crbr_fuel_clad_mw', 'ebrii_markv_fuel_cl', 'fftf_clad_mw',
               'fftf_fuel_cl', 'hcf_input_clad', 'hcf_input_fuel']:
        for loc in LOCS:
            out.append({'part': 'builtin', 'table': nm, 'loc': loc})
    return out


def run_builtin(c):
    from dassh import hotspot
    r = new_result()
    V = r['violations']
    path = dict(_table_files())[c['table']]
    loc = c['loc']
    n = NTERMS[loc]
    rows, m = _own_parse(path)
    fits = (m + 2) >= COLS_NEEDED[loc]
    if not fits:
        # too few columns for the location: must be the logged error
        try:
            hotspot._read_hcf_table(path, COLS_NEEDED[loc])
            V.append(violation('narrow-table-accepted', c, 'table with %d columns accepted for %s'
                               % (m + 2, loc)))
            r['outcome'] = 'accepted'
        except SystemExit:
            r['outcome'] = 'rejected-narrow'
        except Exception as e:
            V.append(violation('malformed-table-exception', dict(c, cls='few-cols'),
                               '%s: %s' % (type(e).__name__, e), site=site_of(e)))
            r['outcome'] = 'exc'
        r['states'] = 1
        r['nontrivial'] = True
        return r
    # every rise vector of {5, 40}^n plus the all-zero one, one "assembly" each
    dlist = [list(x) for x in itertools.product((5.0, 40.0), repeat=n)] + [[0.0] * n]
    ge1 = all((isinstance(x, str) or x >= 1.0) for _, cells in rows for x in cells)
    nbad = 0
    for i in IN_SIG:
        for o in OUT_SIG:
            reac, exp_dT = _stub_reactor({'A': {loc: (path, i, o)}},
                                         [(k, 'A', d) for k, d in enumerate(dlist)])
            dT = np.array([exp_dT[k][:n] for k in range(len(dlist))])
            expD, expS = _own_factors(rows, loc, dT)
            try:
                temps, ids = hotspot.analyze(reac)
                r['transitions'] += 1
            except BaseException as e:
                V.append(violation('builtin-exception', dict(c, in_sigma=i, out_sigma=o),
                                   '%s: %s' % (type(e).__name__, e), site=site_of(e)))
                r['outcome'] = 'exc'
                return r
            nom, z, T0, U = _reference(T_IN, dT, expD, expS)
            ref = T0 + (float(o) / float(i)) * U
            got = np.asarray(temps[loc])
            tol = ULPS * EPS * float(np.max(np.abs(ref)))
            r['states'] += len(dlist)
            r['traces'] += len(dlist)
            if got.shape != ref.shape or not np.isfinite(got).all() or \
                    (np.abs(got - ref) > tol).any():
                nbad += 1
                if nbad == 1:
                    V.append(violation('builtin-mismatch', dict(c, in_sigma=i, out_sigma=o),
                                       'analyze with a shipped table differs from the reference sum '
                                       'with the harness reading of the same file',
                                       got.tolist(), ref.tolist(), tol))
            elif ge1 and (got < nom - tol).any():
                V.append(violation('below-nominal', dict(c, in_sigma=i, out_sigma=o),
                                   'factors >= 1 but below nominal', got.tolist(), nom.tolist(), tol))
    r['nontrivial'] = True
    r['outcome'] = 'ok' if not V else 'violated'
    r['extra'] = {'B_builtin_all_ge_1': {c['table']: int(ge1)}}
    r['info'] = {'rows': len(rows), 'cols': m, 'asm': len(dlist)}
    return r


# ---- malformed / odd tables ------------------------------------------
TABLE_CLASSES = {
    # name: expectation  (reject = must be SystemExit; accept = must be read
    #                     correctly; either = SystemExit or read correctly;
    #                     any = only "no exception other than SystemExit")
    'header-name': 'reject', 'few-cols': 'reject', 'bad-expr': 'reject', 'empty-cell': 'reject',
    'word-cell': 'reject', 'unknown-type': 'reject', 'short-row': 'reject',
    'empty-file': 'reject',
    # blank lines: a logged error or reading the table without them are both fine
    'blank-line': 'either', 'blank-tail': 'either',
    'long-row': 'any', 'header-only': 'any',
    'crlf': 'accept', 'name-has-direct': 'accept',
}


def cases_tablecls(tier):
    out = []
    for cls in sorted(TABLE_CLASSES):
        for loc in LOCS:
            m = COLS_NEEDED[loc] - 2
            if cls == 'header-name':
                for pos in range(m + 2):
                    out.append({'part': 'tablecls', 'cls': cls, 'loc': loc, 'pos': pos})
            elif cls in ('bad-expr', 'empty-cell', 'word-cell', 'short-row', 'long-row',
                         'unknown-type', 'blank-line'):
                for pos in range(3):         # which data row carries the fault
                    out.append({'part': 'tablecls', 'cls': cls, 'loc': loc, 'pos': pos})
            else:
                out.append({'part': 'tablecls', 'cls': cls, 'loc': loc, 'pos': 0})
    return out


def run_tablecls(c):
    from dassh import hotspot
    r = new_result()
    V = r['violations']
    cls, loc, pos = c['cls'], c['loc'], c['pos']
    m = COLS_NEEDED[loc] - 2
    rows = [('direct', [1.1] * m), ('statistical', [1.2] * m), ('statistical', [1.0] * m)]
    lines = _csv_text(rows, m, tail=False).split('\n')
    eol, tail = '\n', '\n'
    if cls == 'header-name':
        h = lines[0].split(',')
        h[pos] = h[pos] + 'X'
        lines[0] = ','.join(h)
    elif cls == 'few-cols':
        lines = [','.join(x.split(',')[:-1]) for x in lines]
    elif cls in ('bad-expr', 'empty-cell', 'word-cell'):
        x = lines[1 + pos].split(',')
        x[-1] = {'bad-expr': '1 + 3 / T', 'empty-cell': '', 'word-cell': 'n/a'}[cls]
        lines[1 + pos] = ','.join(x)
    elif cls == 'unknown-type':
        x = lines[1 + pos].split(',')
        x[1] = 'Random'
        lines[1 + pos] = ','.join(x)
    elif cls == 'short-row':
        lines[1 + pos] = ','.join(lines[1 + pos].split(',')[:-1])
    elif cls == 'long-row':
        lines[1 + pos] = lines[1 + pos] + ',1.3'
    elif cls == 'blank-line':
        lines.insert(1 + pos, '')
    elif cls == 'blank-tail':
        tail = '\n\n'
    elif cls == 'empty-file':
        lines, tail = [], ''
    elif cls == 'header-only':
        lines = lines[:1]
    elif cls == 'crlf':
        eol, tail = '\r\n', '\r\n'
    elif cls == 'name-has-direct':
        x = lines[2].split(',')
        x[0] = 'Flow redirect'
        lines[2] = ','.join(x)
    text = eol.join(lines) + tail
    tmp = tempfile.mkdtemp(prefix='vf_c19_', dir=os.environ.get('VERIF_TMP'))
    want = TABLE_CLASSES[cls]
    try:
        path = os.path.join(tmp, 't.csv')
        with open(path, 'w', encoding='utf-8', newline='') as f:
            f.write(text)
        try:
            subf, expr = hotspot._read_hcf_table(path, COLS_NEEDED[loc])
            oc = 'accepted'
            if want in ('accept', 'either'):
                exp = np.array([rows[0][1]]), np.array([rows[1][1], rows[2][1]])
                if not (_nan_eq(subf['direct'], exp[0]) and _nan_eq(subf['statistical'], exp[1])):
                    V.append(violation('parsed-table-mismatch', c, 'odd but valid table misread',
                                       [subf['direct'].tolist(), subf['statistical'].tolist()],
                                       [exp[0].tolist(), exp[1].tolist()]))
            elif want == 'reject':
                V.append(violation('malformed-table-accepted', c,
                                   'malformed table (%s) read without an error' % cls,
                                   [subf['direct'].tolist(), subf['statistical'].tolist()], 'SystemExit'))
        except SystemExit:
            oc = 'SystemExit'
            if want == 'accept':
                V.append(violation('valid-table-rejected', c, 'valid table (%s) rejected' % cls,
                                   site='SystemExit@hotspot.py:_read_hcf_table'))
        except Exception as e:
            oc = type(e).__name__
            V.append(violation('malformed-table-exception' if want != 'accept'
                               else 'valid-table-exception', c,
                               '%s table: %s: %s (a logged error + SystemExit is dassh\'s error path)'
                               % (cls, type(e).__name__, e), oc, 'SystemExit' if want == 'reject'
                               else want, site=site_of(e)))
    finally:
        shutil.rmtree(tmp, ignore_errors=True)
    r['states'] = 1
    r['transitions'] = 1
    r['traces'] = 1
    r['nontrivial'] = True
    r['outcome'] = cls + ':' + oc
    r['extra'] = {'B_tablecls_outcomes': {cls + ':' + oc: 1}}
    return r


# ======================================================================
# Part C: end to end
SHAPES = [(['up', 'down'], 'asym', 0), (['mid', 'mid'], 'tilt', 0), (['flat', 'up'], 'asym', 1),
          (['down', 'flat'], 'uniform', 0), (['ends', 'cubic'], 'asym', 2)]
BUILTIN_FOR = {'coolant': 'fftf_clad_mw', 'clad_od': 'crbr_blanket_clad_mw',
               'clad_mw': 'crbr_fuel_clad_mw', 'clad_id': 'ebrii_markv_fuel_cl',
               'fuel_od': 'ebrii_markv_fuel_cl', 'fuel_cl': 'fftf_fuel_cl'}
FUELMODEL = {'clad_material': 'ht9_se2anl_425', 'gap_material': 'sodium_se2anl_425',
             'gap_thickness': 0.0, 'r_frac': [0.0, 0.33333, 0.66667],
             'pu_frac': [0.2, 0.2, 0.2], 'zr_frac': [0.1, 0.1, 0.1],
             'porosity': [0.1, 0.1, 0.1]}
PINMODEL = {'clad_material': 'ht9_se2anl_425', 'r_frac': [0.0, 0.33333, 0.66667],
            'pin_material': ['ox1', 'ox2', 'ox3'], 'gap_material': 'sodium_se2anl_425',
            'gap_thickness': 0.0001}
PINMATS = {'ox1': {'thermal_conductivity': 3.0}, 'ox2': {'thermal_conductivity': 4.0},
           'ox3': {'thermal_conductivity': 5.0}}
POSITIONS = {1: [(1, 1)], 2: [(1, 1), (2, 3)], 3: [(1, 1), (2, 1), (2, 3)]}


def cases_sweep(tier):
    out = []
    idx = 0
    if tier == 'quick':
        for rings in (2, 3):
            for model in ('fuel', 'pin'):
                for n_asm in (1, 2, 3):
                    out.append({'part': 'sweep', 'rings': rings, 'model': model, 'n_asm': n_asm,
                                'shape': idx % 5,
                                'tabset': 'builtin' if idx % 3 == (idx // 3) % 3 else 'gen',
                                'gap': 'flow' if (n_asm > 1 and idx % 2) else 'none', 'idx': idx})
                    idx += 1
        for model in ('fuel', 'pin'):
            out.append({'part': 'sweep', 'rings': 2, 'model': model, 'n_asm': 2, 'layout': 'cycle',
                        'shape': 1, 'tabset': 'gen', 'gap': 'none', 'idx': idx})
            idx += 1
            out.append({'part': 'sweep', 'rings': 2, 'model': model, 'n_asm': 3, 'layout': 'wide',
                        'shape': 2, 'tabset': 'gen', 'gap': 'none', 'idx': idx})
            idx += 1
    else:
        for model in ('fuel', 'pin'):
            for shape in range(5):
                for gap in ('none', 'flow'):
                    out.append({'part': 'sweep', 'rings': 2, 'model': model, 'n_asm': 3, 'layout': 'wide',
                                'shape': shape, 'tabset': 'gen', 'gap': gap, 'idx': idx})
                    idx += 1
        for rings in (2, 3):
            for model in ('fuel', 'pin'):
                for shape in range(5):
                    for gap in ('none', 'flow'):
                        out.append({'part': 'sweep', 'rings': rings, 'model': model, 'n_asm': 2, 'layout': 'cycle',
                                    'shape': shape, 'tabset': 'gen', 'gap': gap, 'idx': idx})
                        idx += 1
        for rings in (2, 3):
            for model in ('fuel', 'pin'):
                for n_asm in (1, 2, 3):
                    for shape in range(5):
                        for tabset in ('gen', 'builtin'):
                            out.append({'part': 'sweep', 'rings': rings, 'model': model,
                                        'n_asm': n_asm, 'shape': shape, 'tabset': tabset,
                                        'gap': 'flow' if (n_asm > 1 and (shape + n_asm) % 2) else 'none',
                                        'idx': idx})
                            idx += 1
    return out


def _sigma_for(idx, li, ti):
    return 1 + (idx + li + ti) % 4, (idx + 2 * li + ti) % 5


def _gen_rows(typ, loc, variant):
    """table of the harness for one (assembly type, location, variant); the
    narrowest allowed width for type A, the full seven columns for type B"""
    m = COLS_NEEDED[loc] - 2 if typ == 'A' else 5
    sh = 0.0 if typ == 'A' else 0.03
    if variant == 'unity':
        return [('direct', [1.0] * m), ('direct', [1.0] * m),
                ('statistical', [1.0] * m), ('statistical', [1.0] * m)], m
    d0 = [1.02 + 0.01 * j + sh for j in range(m)]
    d1 = [x + sh for x in [1.1, 1.0, 1.2, 1.0, 1.04][:m]]
    s0 = [x + sh for x in [1.2, 1.1, 1.3, 1.15, 1.25][:m]]
    s1 = [x + sh for x in [1.05, 1.21, 1.0, 1.4, 1.1][:m]]
    if variant == 'expr':
        n = NTERMS[loc]
        s0[0] = 'loop'
        d1[0] = 'lin'
        last = max(j for j in range(m) if max(_post_split_cols(loc, j)) < n)
        if last > 0:
            s1[last] = 'rx'
    return [('direct', d0), ('direct', d1), ('statistical', s0), ('statistical', s1)], m


def _power(rings, q, shape, seed):
    ax, pins, ds = SHAPES[shape % 5]
    return {'rings': rings, 'nduct': 1, 'cells': [0, 0.2, 0.4], 'q': q, 'pins': pins,
            'duct': 'uniform', 'cool': 'uniform', 'axial': ax, 'seed': seed + ds, 'order': 3}


def _sweep_scenario(c):
    rings, n_asm = c['rings'], c['n_asm']
    types = ['A'] + (['B'] if n_asm > 1 else [])
    files = {}
    tdefs = {}
    for ti, typ in enumerate(types):
        hs = {}
        for li, loc in enumerate(LOCS):
            i, o = _sigma_for(c['idx'], li, ti)
            if c['tabset'] == 'builtin' and typ == 'A':
                sub = BUILTIN_FOR[loc]
            else:
                sub = 'hs_%s_%s.csv' % (typ, loc)
                rows, m = _gen_rows(typ, loc, 'unity')
                files[sub] = _csv_text(rows, m)
            hs['h_' + loc] = {'temperature': loc, 'input_sigma': i, 'output_sigma': o,
                              'subfactors': sub}
        kw = {'fuelmodel': FUELMODEL} if c['model'] == 'fuel' else {'pinmodel': PINMODEL}
        tdefs[typ] = S.design(rings, hotspot=hs, **kw)
    q0 = 22000.0 / rings
    flow0 = {2: 0.5, 3: 1.4}[rings]
    assign, pw = [], {}
    pos = list(POSITIONS[n_asm])
    bpos = (2, 2)
    if c.get('layout') == 'cycle':
        # type A (defined first) on ids 1 and 2, type B on id 0: collecting the rows type by type and
        # sorting them by assembly id is then a 3-cycle (not an involution)
        pos = [(2, 1), (2, 2)]
        bpos = (1, 1)
    elif c.get('layout') == 'wide':
        # a 19-position core, mostly vacant: type A on the assembly ids 2, 9 and 16, type B on id 0 (ids that are not
        # small consecutive integers: any container that orders them by something else than their value shows)
        pos = [(2, 2), (3, 3), (3, 10)]
        bpos = (1, 1)
    for j, (rg, ps) in enumerate(pos):
        assign.append(['A', rg, ps, {'flowrate': round(flow0 * (1.0 - 0.15 * j), 6)}])
        pw[str(S.asm_id(rg, ps) + 1)] = _power(rings, q0 * (1.0 - 0.1 * j), c['shape'] + j, j)
    if n_asm > 1:
        assign.append(['B', bpos[0], bpos[1], {'flowrate': round(flow0 * 0.8, 6)}])
        pw[str(S.asm_id(*bpos) + 1)] = _power(rings, q0 * 0.9, c['shape'] + 3, 3)
    scn = S.single(tdefs['A'], flow0, length=0.4, power=None)
    scn['types'] = tdefs
    scn['assign'] = assign
    scn['power'] = {'asm': pw}
    scn['files'] = files
    scn['core']['gap_model'] = c['gap']
    if c['gap'] != 'none':
        scn['core']['bypass_fraction'] = 0.01
    if c['model'] == 'pin':
        scn['materials'] = PINMATS
    return scn, types


def _record(reactor):
    """wrap Assembly.calculate (instance attribute) and copy the pin
    temperature array and the peak coolant temperature after every plane"""
    rec = {}
    for a in reactor.assemblies:
        rec[a.id] = {'z': [], 'pins': [], 'cool': []}

        def wrapped(*args, _o=a.calculate, _a=a, _r=rec[a.id], **kw):
            out = _o(*args, **kw)
            _r['z'].append(float(_a.z))
            p = _a.pin_temp_array
            _r['pins'].append(None if p is None else np.array(p, dtype=float, copy=True))
            _r['cool'].append(float(np.max(_a.temp_coolant)))
            return out
        a.calculate = wrapped
    return rec


def _candidates(stack, col):
    v = stack[:, :, col]
    m = float(v.max())
    return m, [tuple(int(x) for x in ij) for ij in np.argwhere(v == m)]


def run_sweep(c):
    from dassh import hotspot
    r = new_result()
    V = r['violations']
    scn, types = _sweep_scenario(c)
    ex = {'C_peak_where': {}, 'C_checks': {}}

    def cnt(k, key, v=1):
        ex[k][key] = ex[k].get(key, 0) + v

    with S.Built(scn) as b:
        reac = b.reactor()
        rec = _record(reac)
        reac.temperature_sweep()
        t_in = float(reac.inlet_temp)
        asm = sorted(reac.assemblies, key=lambda a: a.id)
        r['states'] = sum(len(rec[a.id]['z']) for a in asm)
        r['transitions'] = r['states']
        # ---- nominal peaks of the recorder vs Assembly._peak
        nomrow = {}
        pins_seen, planes_seen = set(), set()
        for a in asm:
            R_ = rec[a.id]
            stack = np.stack(R_['pins'])          # planes x pins x 9
            nomrow[a.id] = {}
            for loc, col in PINCOL.items():
                m, cand = _candidates(stack, col)
                pk = a._peak['pin'][loc]
                rows = [stack[p, q] for p, q in cand]
                hit = [k for k, row in enumerate(rows) if list(row) == [float(x) for x in pk[2]]]
                if float(pk[0]) != m or not hit:
                    V.append(violation('peak-profile-mismatch', dict(c, loc=loc, asm=a.id),
                                       '_peak[pin][%s] is not the recorded row of the pin and plane '
                                       'of the nominal maximum' % loc,
                                       [float(pk[0]), [float(x) for x in pk[2]]],
                                       [m, rows[0].tolist()], 0.0))
                    nomrow[a.id][loc] = [rows[0]]
                else:
                    nomrow[a.id][loc] = rows
                if len(cand) > 1:
                    cnt('C_checks', 'ties', 1)
                p, q = cand[0]
                pins_seen.add(q)
                planes_seen.add(p)
                cnt('C_peak_where', 'top' if p == stack.shape[0] - 1 else 'below-top')
            if len({nomrow[a.id][k][0][1] for k in PINCOL}) > 1:
                cnt('C_checks', 'locations_peak_at_different_planes')
            mc = max(R_['cool'])
            if float(a._peak['cool'][0]) != mc:
                V.append(violation('peak-coolant-mismatch', dict(c, asm=a.id),
                                   '_peak[cool] is not the recorded maximum',
                                   float(a._peak['cool'][0]), mc, 0.0))
            nomrow[a.id]['coolant'] = mc
        npins_seen, nplanes_seen = len(pins_seen), len(planes_seen)

        def rises(a, loc, row=None):
            if loc == 'coolant':
                t = [t_in, nomrow[a.id]['coolant']]
            else:
                t = [t_in] + [float(x) for x in row[3:PINCOL[loc] + 1]]
            return np.diff(np.array(t))

        def expected(a, typ, loc, variant, i, o, row=None):
            d = rises(a, loc, row)[None, :]
            if variant == 'builtin':
                prow, m = _own_parse(dict(_table_files())[BUILTIN_FOR[loc]])
            else:
                prow, m = _gen_rows(typ, loc, variant)
            D, Sx = _own_factors(prow, loc, d)
            nom, z, T0, U = _reference(t_in, d, D, Sx)
            return nom[0], T0[0] + (float(o) / float(i)) * U[0]

        variants = ['unity', 'hot', 'expr']
        for variant in variants:
            for ti, typ in enumerate(types):
                for loc in LOCS:
                    if c['tabset'] == 'builtin' and typ == 'A':
                        continue
                    rows, m = _gen_rows(typ, loc, variant)
                    with open(os.path.join(b.dir, 'hs_%s_%s.csv' % (typ, loc)), 'w') as f:
                        f.write(_csv_text(rows, m))
            try:
                temps, ids = hotspot.analyze(reac)
                r['transitions'] += 1
            except BaseException as e:
                V.append(violation('analyze-exception', dict(c, variant=variant),
                                   '%s: %s' % (type(e).__name__, e), site=site_of(e)))
                continue
            for loc in LOCS:
                li = LOCS.index(loc)
                want_ids = [a.id for a in asm]
                if list(ids.get(loc, [])) != want_ids or \
                        np.asarray(temps.get(loc)).shape != (len(asm), NTERMS[loc]):
                    V.append(violation('analyze-structure', dict(c, variant=variant, loc=loc),
                                       'assembly ids / result shape', [ids.get(loc),
                                                                       list(np.shape(temps.get(loc)))],
                                       [want_ids, [len(asm), NTERMS[loc]]]))
                    continue
                for k, a in enumerate(asm):
                    typ = a.name
                    ti = types.index(typ)
                    i, o = _sigma_for(c['idx'], li, ti)
                    var = 'builtin' if (c['tabset'] == 'builtin' and typ == 'A') else variant
                    got = np.asarray(temps[loc][k], dtype=float)
                    sc = dict(c, variant=var, loc=loc, asm=a.id, in_sigma=i, out_sigma=o)
                    tol = ULPS * EPS * max(float(np.max(np.abs(got))), t_in)
                    r['traces'] += 1
                    cnt('C_checks', var)
                    cands = [None] if loc == 'coolant' else nomrow[a.id][loc]
                    best = None
                    for row in cands:
                        nom, ref = expected(a, typ, loc, var, i, o, row)
                        err = float(np.max(np.abs(got - ref))) if np.isfinite(got).all() else float('inf')
                        if best is None or err < best[0]:
                            best = (err, nom, ref)
                    err, nom, ref = best
                    if var == 'unity':
                        # hot-spot == nominal peak profile the Assembly recorded
                        if loc == 'coolant':
                            rec_nom = np.array([float(a._peak['cool'][0])])
                        else:
                            rec_nom = np.array([float(x) for x in
                                                a._peak['pin'][loc][2][3:PINCOL[loc] + 1]])
                        if not np.isfinite(got).all() or (np.abs(got - rec_nom) > tol).any():
                            V.append(violation('unity-not-nominal', sc, 'unity table: analyze result '
                                               '!= nominal peak profile in Assembly._peak',
                                               got.tolist(), rec_nom.tolist(), tol))
                        continue
                    if err > tol:
                        # which recorded (plane, pin) would explain the value?
                        hint = None
                        if loc != 'coolant' and np.isfinite(got).all():
                            stack = np.stack(rec[a.id]['pins'])
                            for p in range(stack.shape[0]):
                                for q in range(stack.shape[1]):
                                    _, rr = expected(a, typ, loc, var, i, o, stack[p, q])
                                    if np.max(np.abs(rr - got)) <= tol:
                                        hint = {'plane': p, 'pin': q, 'z': rec[a.id]['z'][p]}
                                        break
                                if hint:
                                    break
                        V.append(violation('wrong-rises-used', sc, 'hot-spot result is not the reference '
                                           'sum over the rises of the pin and plane of the nominal peak '
                                           '(explained by %s)' % (hint,), got.tolist(), ref.tolist(), tol))
                        continue
                    if var in ('hot', 'expr'):
                        if (got < nom - tol).any():
                            V.append(violation('below-nominal', sc, 'factors >= 1 but below nominal',
                                               got.tolist(), nom.tolist(), tol))
                        if (np.diff(np.concatenate([[t_in], got])) < -tol).any():
                            V.append(violation('sequence-decreasing', sc, 'reported sequence decreases',
                                               got.tolist(), None, tol))
            if c['tabset'] == 'builtin' and len(types) == 1:
                break       # nothing harness-written to vary
    r['nontrivial'] = r['traces'] > 0
    r['outcome'] = 'ok' if not V else 'violated'
    r['extra'] = ex
    r['info'] = {'planes': r['states'], 'checks': r['traces'],
                 'peak_pins': npins_seen, 'peak_planes': nplanes_seen}
    return r


# ---- assemblies without a pin model (F11) ------------------------------
def cases_nopin(tier):
    out = []
    for rings in (2, 3):
        for n_asm in (1, 2):
            for request in ('coolant', 'clad_mw', 'coolant+fuel_cl'):
                for mixed in (False, True):
                    out.append({'part': 'nopin', 'rings': rings, 'n_asm': n_asm, 'request': request,
                                'pinmodel': 'none', 'mixed': mixed})
    return out


def run_nopin(c):
    from dassh import hotspot
    r = new_result()
    V = r['violations']
    rings = c['rings']
    req = c['request'].split('+')
    hs = {'h_' + loc: {'temperature': loc, 'input_sigma': 3, 'output_sigma': 2,
                       'subfactors': 'hot.csv'} for loc in req}
    rows, m = _gen_rows('B', 'fuel_cl', 'hot')
    tdefs = {'N': S.design(rings, hotspot=hs)}
    assign = [['N', 1, 1, {'flowrate': 0.6 * rings}]]
    pw = {'1': _power(rings, 9000.0, 0, 0)}
    if c['n_asm'] == 2:
        assign.append(['N', 2, 2, {'flowrate': 0.5 * rings}])
        pw[str(S.asm_id(2, 2) + 1)] = _power(rings, 8000.0, 2, 1)
    if c['mixed']:
        tdefs['P'] = S.design(rings, fuelmodel=FUELMODEL,
                              hotspot={'h_coolant': {'temperature': 'coolant', 'input_sigma': 3,
                                                     'output_sigma': 2, 'subfactors': 'hot.csv'}})
        assign.append(['P', 2, 1, {'flowrate': 0.55 * rings}])
        pw[str(S.asm_id(2, 1) + 1)] = _power(rings, 8500.0, 1, 2)
    scn = S.single(tdefs['N'], 1.0, length=0.4, power=None)
    scn['types'] = tdefs
    scn['assign'] = assign
    scn['power'] = {'asm': pw}
    scn['files'] = {'hot.csv': _csv_text(rows, m)}
    with S.Built(scn) as b:
        reac = b.reactor()
        rec = _record(reac)
        reac.temperature_sweep()
        t_in = float(reac.inlet_temp)
        r['states'] = sum(len(v['z']) for v in rec.values())
        r['transitions'] = r['states'] + 1
        asm = sorted(reac.assemblies, key=lambda a: a.id)
        with_cool = [a for a in asm if 'coolant' in req or a.name == 'P']
        try:
            out = hotspot.analyze(reac)
        except AssertionError as e:
            V.append(violation('coolant-hotspot-needs-pin-model', c,
                               'coolant hot-spot requested for an assembly without PinModel/FuelModel: '
                               'AssertionError in _get_peak_dt (the coolant location needs no pin data)',
                               'AssertionError', 'coolant hot-spot temperatures', site=site_of(e)))
            r['outcome'] = 'assertion'
            r['nontrivial'] = True
            return r
        except BaseException as e:
            V.append(violation('analyze-exception', c, '%s: %s' % (type(e).__name__, e),
                               site=site_of(e)))
            r['outcome'] = 'exc'
            return r
        r['traces'] = 1
        r['nontrivial'] = True
        if not with_cool:
            # only pin locations requested, no pin model: skipped with a warning
            if out is not None and (out[0] or out[1]):
                V.append(violation('skipped-request-produced-output', c,
                                   'pin-location hot-spot without pin model produced results',
                                   str(out)[:200], 'nothing'))
            r['outcome'] = 'skipped'
            return r
        temps, ids = out
        want = [a.id for a in with_cool]
        got = np.asarray(temps.get('coolant'))
        if list(ids.get('coolant', [])) != want or got.shape != (len(want), 1):
            V.append(violation('analyze-structure', c, 'ids / shape', [ids, list(got.shape)],
                               [want, [len(want), 1]]))
            return r
        for k, a in enumerate(with_cool):
            d = np.array([[max(rec[a.id]['cool']) - t_in]])
            D, Sx = _own_factors(rows, 'coolant', d)
            nom, z, T0, U = _reference(t_in, d, D, Sx)
            ref = T0[0] + (2.0 / 3.0) * U[0]
            tol = ULPS * EPS * float(ref[0])
            if abs(got[k, 0] - ref[0]) > tol:
                V.append(violation('wrong-rises-used', dict(c, asm=a.id), 'coolant hot-spot',
                                   got[k].tolist(), ref.tolist(), tol))
        r['outcome'] = 'ok' if not V else 'violated'
    return r


# ---- reported hot-spot temperatures (dassh.out) -------------------------
UNITS = ('kelvin', 'celsius', 'fahrenheit')


def _to_unit(x, unit):
    """kelvin -> user unit (harness conversion)"""
    if unit == 'celsius':
        return x - 273.15
    if unit == 'fahrenheit':
        return x * 9.0 / 5.0 - 459.67
    return x


def cases_report(tier):
    out = []
    idx = 0
    if tier == 'quick':
        bases = [(2, 'fuel', 2, 0), (2, 'pin', 1, 2)]
        variants = ('unity', 'hot')
    else:
        bases = [(rings, model, n_asm, (rings + n_asm) % 5) for rings in (2, 3)
                 for model in ('fuel', 'pin') for n_asm in (1, 2, 3)]
        variants = ('unity', 'hot', 'expr')
    for rings, model, n_asm, shape in bases:
        for unit in UNITS:
            for variant in variants:
                out.append({'part': 'report', 'rings': rings, 'model': model, 'n_asm': n_asm,
                            'shape': shape, 'tabset': 'gen', 'gap': 'none', 'unit': unit,
                            'variant': variant, 'idx': idx})
                idx += 1
    return out


def _report_meta():
    """titles and column layout read from the real table objects"""
    import re
    from dassh import table as T
    out = {}
    tabs = [('coolant', T.CoolantTempTable(), 'COOLANT TEMPERATURE SUMMARY')]
    for loc in LOCS[1:]:
        comp, reg = loc.split('_')
        tabs.append((loc, T.PeakPinTempTable(comp, reg),
                     'PEAK %s %s TEMPERATURES' % (comp.upper(), reg.upper())))
    for name, tab, title in tabs:
        m = re.search(r'\.(\d+)f', tab._ffmt2)
        out[name] = {'title': title, 'w0': tab.col0_width, 'w': tab.col_width, 'div': tab.divider,
                     'ncol': tab.n_col, 'width': tab.width, 'dp': int(m.group(1))}
    return out


def _report_rows(text, meta):
    """data rows of the section with the given title ({row label: cells});
    rows follow the first full-width rule and end at the first blank line"""
    lines = text.split('\n')
    if meta['title'] not in lines:
        return None
    j = lines.index(meta['title']) + 1
    rule = '-' * meta['width']
    while j < len(lines) and lines[j] != rule:
        j += 1
    rows = {}
    j += 1
    while j < len(lines) and lines[j].strip() != '':
        ln = lines[j]
        j += 1
        if set(ln) == {'-'}:
            continue
        cells = [ln[:meta['w0']].strip()]
        pos = meta['w0']
        for k in range(meta['ncol']):
            pos += len(meta['div'])
            cells.append(ln[pos:pos + meta['w']].strip())
            pos += meta['w']
        rows[cells[0]] = cells
    return rows


def run_report(c):
    """sweep + real postprocess(); the hot-spot columns of the coolant and
    peak pin tables of dassh.out must be the unit-converted analyze values"""
    from dassh import hotspot
    r = new_result()
    V = r['violations']
    unit, variant = c['unit'], c['variant']
    scn, types = _sweep_scenario(c)
    for typ in types:
        for loc in LOCS:
            rows, m = _gen_rows(typ, loc, variant)
            scn['files']['hs_%s_%s.csv' % (typ, loc)] = _csv_text(rows, m)
    if unit != 'kelvin':
        scn['units'] = {'temperature': unit}
        scn['core']['inlet'] = round(_to_unit(T_IN, unit), 9)
    ex = {'R_cells': {}}

    def cnt(key, v=1):
        ex['R_cells'][key] = ex['R_cells'].get(key, 0) + v

    def num(cell):
        try:
            return float(cell)
        except ValueError:
            return None

    with S.Built(scn) as b:
        reac = b.reactor(write_output=True)
        reac.temperature_sweep()
        r['states'] = len(reac.z) * len(reac.assemblies)
        r['transitions'] = r['states']
        t_in = float(reac.inlet_temp)
        if abs(t_in - T_IN) > 1e-6:
            V.append(violation('report-inlet-conversion', c, 'inlet temperature after input conversion',
                               t_in, T_IN, 1e-6))
        temps, ids = hotspot.analyze(reac)
        reac.postprocess()
        r['transitions'] += 2
        with open(os.path.join(b.dir, 'dassh.out')) as fh:
            text = fh.read()
        meta = _report_meta()
        for loc in LOCS:
            M = meta[loc]
            li = LOCS.index(loc)
            n = NTERMS[loc]
            rows = _report_rows(text, M)
            site = 'table.py:CoolantTempTable.make' if loc == 'coolant' \
                else 'table.py:PeakPinTempTable._get_hotspot_temps'
            if rows is None:
                V.append(violation('report-table-missing', dict(c, loc=loc),
                                   'section "%s" not found in dassh.out' % M['title'], site=site))
                continue
            unit1 = 10.0 ** (-M['dp'])
            for ai, a in enumerate(reac.assemblies):
                sc = dict(c, loc=loc, asm=a.id)
                row = rows.get(str(ai + 1))
                if row is None or a.id not in list(ids.get(loc, [])):
                    V.append(violation('report-table-missing', sc, 'no row / no analyze result for the '
                                       'assembly', None if row is None else row, None, site=site))
                    continue
                got = np.asarray(temps[loc][list(ids[loc]).index(a.id)], dtype=float)
                # reference sum from the peak profile the Assembly recorded
                ti = types.index(a.name)
                i, o = _sigma_for(c['idx'], li, ti)
                if loc == 'coolant':
                    nom_k = np.array([float(a._peak['cool'][0])])
                else:
                    nom_k = np.array([float(x) for x in a._peak['pin'][loc][2][3:PINCOL[loc] + 1]])
                d = np.diff(np.concatenate([[t_in], nom_k]))[None, :]
                prow, m = _gen_rows(a.name, loc, variant)
                D, Sx = _own_factors(prow, loc, d)
                _, _, T0, U = _reference(t_in, d, D, Sx)
                ref = T0[0] + (float(o) / float(i)) * U[0]
                tol = ULPS * EPS * float(np.max(np.abs(ref)))
                if got.shape != ref.shape or (np.abs(got - ref) > tol).any():
                    V.append(violation('wrong-rises-used', sc, 'analyze differs from the reference sum',
                                       got.tolist(), ref.tolist(), tol))
                    continue
                if loc == 'coolant':
                    p_nom = [num(row[6])]
                    p_hot = [num(row[7])]
                else:
                    p_nom = [num(x) for x in row[5:5 + n]]
                    p_hot = [num(x) for x in row[11:11 + n]]
                r['traces'] += 1
                bad = None
                for j in range(n):
                    cnt(unit)
                    e_hot = _to_unit(float(ref[j]), unit)
                    e_nom = _to_unit(float(nom_k[j]), unit)
                    # printed to dp decimals: half a unit of the last digit + round-off of the conversion
                    tp = 0.5 * unit1 + 1e-9 * abs(e_hot)
                    if p_hot[j] is None or abs(p_hot[j] - e_hot) > tp:
                        bad = ('report-hotspot-not-converted', 'printed N-sigma value is not the '
                               'hot-spot temperature in the requested unit (%s)' % unit,
                               row[7] if loc == 'coolant' else row[11:11 + n],
                               [round(_to_unit(float(x), unit), M['dp']) for x in ref], tp)
                        break
                    if p_nom[j] is None or abs(p_nom[j] - e_nom) > tp:
                        bad = ('report-nominal-not-converted', 'printed nominal peak is not the '
                               'recorded peak in the requested unit (%s)' % unit,
                               row[6] if loc == 'coolant' else row[5:5 + n],
                               [round(_to_unit(float(x), unit), M['dp']) for x in nom_k], tp)
                        break
                    # two printed numbers: one unit of the last printed digit
                    if variant == 'unity' and abs(p_hot[j] - p_nom[j]) > unit1 * (1 + 1e-9):
                        bad = ('report-unity-not-nominal', 'unity table: printed hot spot != printed '
                               'nominal peak', p_hot, p_nom, unit1)
                        break
                    if p_hot[j] < p_nom[j] - unit1 * (1 + 1e-9):
                        bad = ('report-below-nominal', 'factors >= 1 but the printed hot spot is below '
                               'the printed nominal peak', p_hot, p_nom, unit1)
                        break
                if bad:
                    V.append(violation(bad[0], sc, bad[1], bad[2], bad[3], bad[4], site=site))
    r['nontrivial'] = r['traces'] > 0
    r['outcome'] = 'ok' if not V else 'violated'
    r['extra'] = ex
    r['info'] = {'rows_checked': r['traces'], 'unit': unit, 'variant': variant}
    return r


# ======================================================================
PARTS = {'tables': run_tables, 'reader': run_reader, 'builtin': run_builtin,
         'tablecls': run_tablecls, 'sweep': run_sweep, 'nopin': run_nopin,
         'report': run_report}


def run_case(c):
    return PARTS[c['part']](c)


def main(run):
    run.rule = (
        'tables: every {1,1.2} table for each (terms, direct rows, statistical rows) of the tier x '
        'every rise vector of {0,5,40}^terms x input sigma 1..4 x output sigma 0..4 (a case = a '
        'contiguous block of table indices; non-trivial when some hot-spot value differs from '
        'nominal); reader: every (location, table width, row counts, file format) x {no expression, '
        'each of six expression forms at each cell}; builtin: seven shipped tables x six locations x '
        '20 sigma pairs x rise vectors {5,40}^n + zero; tablecls: every malformed/odd class x location '
        'x fault position; sweep: ring count x pin model x assemblies of the type x power shape x table '
        'set (quick: one shape/table set per combination, cyclic); nopin: rings x assemblies x request '
        'x mixed; report: base sweeps (quick 2, thorough 12) x temperature unit {kelvin, celsius, '
        'fahrenheit} x table variant (unity, >1; thorough also expressions), all six locations.  '
        'VERIF_SEED is not used.')
    run.assumptions = [
        'reference semistatistical sum recomputed in the harness with explicit loops (no cumsum/prod)',
        'tolerance 64 ulp of the largest temperature of the batch (fewer than 64 rounded operations '
        'per reported value); bit-exact agreement at unity is counted separately',
        'increment oracle: exact own-rise form at output sigma 0 or with one statistical row; with '
        'two statistical rows the root-sum-square couples the entries by design, there the increment '
        'is only bounded by functions of its own rise and factors',
        'stub reactor (inlet_temp, _options[hotspot], assemblies with id/name/_peak) for the reader '
        'parts; real Reactor sweeps for the sweep/nopin parts',
        'recorder wraps Assembly.calculate as an instance attribute and copies pin_temp_array',
        'input_sigma = 0 is outside the asserted alphabet (reported in extra.A_input_sigma_0)',
        'report part: dassh.out sections located by title, column layout and print precision read '
        'from the real table objects; printed value vs recomputation: half a unit of the last printed '
        'digit + 1e-9 relative; printed vs printed: one unit of the last printed digit',
    ]
    ct = cases_tables(run.tier)
    run.check_determinism(run_case, ct[0])
    res_t = run.explore('tables', ct, run_case, budget_s=600, chunksize=1)
    run.notes['A_worst_reference_error'] = max(
        [x['info']['worst_ref_err'] for x in res_t if x.get('info')] or [0.0])
    run.explore('reader', cases_reader(run.tier), run_case, budget_s=300)
    run.explore('builtin', cases_builtin(run.tier), run_case, budget_s=300, chunksize=1)
    res_m = run.explore('tablecls', cases_tablecls(run.tier), run_case, budget_s=60)
    cs = cases_sweep(run.tier)
    res_s = run.explore('sweep', cs, run_case, budget_s=600, chunksize=1)
    cn = cases_nopin(run.tier)
    res_n = run.explore('nopin', cn, run_case, budget_s=600, chunksize=1)
    run.explore('report', cases_report(run.tier), run_case, budget_s=600, chunksize=1)
    # ---- vacuity
    def vac(part, what):
        v = violation('vacuous-alphabet', {'part': part}, what)
        v['part'] = part
        run.violations.append(v)
    where = run.extra.get('C_peak_where', {})
    if not where.get('below-top'):
        vac('sweep', 'no nominal pin peak below the top plane: profile selection never mattered')
    if not run.extra.get('C_checks', {}).get('locations_peak_at_different_planes'):
        vac('sweep', 'no assembly whose locations peak at different planes')
    if max([x['info']['peak_pins'] for x in res_s if x.get('info')] or [0]) < 2:
        vac('sweep', 'peak always at the same pin')
    if not any(x['outcome'] in ('ok', 'skipped') for x in res_n):
        vac('nopin', 'no request without pin model completed')
    if not any(o.endswith('SystemExit') for o in run.extra.get('B_tablecls_outcomes', {})):
        vac('tablecls', 'no malformed table reached the logged error path')
    if not run.extra.get('A_unity_entries_bit_exact'):
        vac('tables', 'unity table never evaluated')
    for u in UNITS:
        if not run.extra.get('R_cells', {}).get(u):
            vac('report', 'no printed hot-spot value compared for temperature unit %s' % u)


def replay(body):
    r = guarded(run_case, body['scenario'], 900)
    for v in r['violations']:
        print('VIOLATION property=C19 replay=(inline) kind=%s site=%s %s'
              % (v['kind'], v.get('site'), v['what']))
        if v.get('observed') is not None:
            print('  observed=%s\n  expected=%s tol=%s' % (str(v['observed'])[:400],
                                                          str(v['expected'])[:400], v.get('tolerance')))
    print('outcome', r['outcome'], r.get('info'))
    return 1 if r['violations'] else 0
