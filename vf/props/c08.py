"""C08  Bundle topology and geometry are well-formed for every ring count.

Alphabet: rings 2..20 (all) x ducts {1,2,3} x SE2 flag x (P/D, wire, edge
clearance) grid.  Each case builds the real PinLattice / Subchannel /
RoddedRegion and evaluates closed-form counts, adjacency symmetry, neighbour
counts by type, pin<->subchannel incidence, centroid/adjacency agreement,
six-fold symmetry and area tiling.

Part `history`: a bundle B built after a bundle A that differs from it in one
attribute (wall / bypass thicknesses, wire, P/D, clearance, number of ducts,
SE2 flag; both orders) in ONE process must have, array by array and bit for
bit, the geometry of B built in a pristine (forked) process.

Part `input`: the pin bundle of the assembly a real Reactor builds from an
input file (with [Setup] se2geo off and on) has the geometry of a RoddedRegion
constructed directly from the same dimensions and flag.
"""
import math

import numpy as np

from ..run import new_result, violation, site_of
from .. import scenario as S

SQ3 = math.sqrt(3.0)
TOL = 1e-11


def cases(tier):
    # the last one: a wire of a tenth of the pin gap (some 0.05 mm: a thin wire is still a wire)
    geos = [(1.20, True, 'tight'), (1.08, True, 'mid'), (1.35, False, 'loose'), (1.08, 0.1, 'mid')]
    if tier == 'thorough':
        geos = [(pd, w, c) for pd in (1.08, 1.20, 1.35) for w in (True, False, 0.1, 0.02)
                for c in ('tight', 'mid', 'loose')]
    out = []
    for rings in range(2, 21):
        for ducts in (1, 2, 3):
            for se2 in (False, True):
                for gi, (pd, wire, clr) in enumerate(geos):
                    if tier == 'quick' and ducts == 3 and (rings > 6 or gi > 0):
                        continue
                    out.append({'rings': rings, 'ducts': ducts, 'se2': se2,
                                'pd': pd, 'wire': wire, 'clr': clr})
    # wire lead: short, and beyond the range of the friction correlations (DASSH warns, the geometry is as stated)
    for rings in range(2, 21):
        for se2 in (False, True):
            for hd in ((8.0, 60.0, 150.0) if tier == 'thorough' or rings % 3 == 0 else (60.0,)):
                out.append({'rings': rings, 'ducts': 1, 'se2': se2, 'pd': 1.20, 'wire': True, 'clr': 'mid',
                            'hd': hd})
    return out


def _rot(xy, k):
    a = -k * math.pi / 3.0
    c, s = math.cos(a), math.sin(a)
    return np.column_stack([c * xy[:, 0] - s * xy[:, 1],
                            s * xy[:, 0] + c * xy[:, 1]])


def _same_pointset(a, b, tol):
    """every point of a has a partner in b within tol (and sizes equal)"""
    if len(a) != len(b):
        return False, None
    d, idx = _nearest(b, a)
    ok = bool(np.max(d) <= tol and len(set(idx.tolist())) == len(a))
    return ok, float(np.max(d))


def _nearest(ref, pts, k=1):
    """brute-force nearest neighbours (numpy only): distances and indices of
    the k nearest points of ref for every point of pts"""
    pts = np.atleast_2d(pts)
    out_d, out_i = [], []
    for lo in range(0, len(pts), 512):
        blk = pts[lo:lo + 512]
        dm = np.sqrt(((blk[:, None, :] - ref[None, :, :]) ** 2).sum(axis=2))
        if k == 1:
            i = np.argmin(dm, axis=1)
            out_i.append(i)
            out_d.append(dm[np.arange(len(blk)), i])
        else:
            i = np.argsort(dm, axis=1, kind='stable')[:, :k]
            out_i.append(i)
            out_d.append(np.take_along_axis(dm, i, axis=1))
    return np.concatenate(out_d), np.concatenate(out_i)


def run_case(c):
    import dassh
    from dassh.pin import PinLattice
    from dassh.subchannel import Subchannel
    r = new_result()
    V = r['violations']
    n = c['rings']
    # unequal wall and bypass thicknesses (inside out) so that index slips between ducts show
    dsn = S.design(n, pd=c['pd'], ducts=c['ducts'], wire=c['wire'], hd=c.get('hd', 30.0),
                   clearance=c['clr'], oftf=0.012 * n + 0.03,
                   duct_t=[0.002, 0.003, 0.0035][:c['ducts']], byp_t=[0.0025, 0.004])
    P, D = dsn['pin_pitch'], dsn['pin_diameter']
    Dw, Pw = dsn['wire_diameter'], dsn['wire_pitch']
    ftf = dsn['duct_ftf']
    dftf = [ftf[i:i + 2] for i in range(0, len(ftf), 2)]
    nd = c['ducts']
    r['nontrivial'] = True
    r['states'] = 1
    r['traces'] = 1

    def bad(kind, what, obs=None, exp=None, tol=None):
        V.append(violation(kind, c, what, obs, exp, tol))

    # ---------------- topology on the real Subchannel -----------------
    try:
        pl = PinLattice(n, P, D)
        sc = Subchannel(n, P, D, pl.map, pl.xy, dftf)
    except Exception as e:
        V.append(violation('map-construction', c, '%s: %s' % (type(e).__name__, e),
                           site=site_of(e)))
        r['outcome'] = 'map-fail'
        return r
    ni, ne, nc = 6 * (n - 1) ** 2, 6 * (n - 1), 6
    ncool = ni + ne + nc
    nduct = 6 * n
    ntot = ncool + (2 * nd - 1) * nduct
    npin = 3 * n * (n - 1) + 1
    if pl.n_pin != npin or len(pl.xy) != npin:
        bad('count', 'pin count', pl.n_pin, npin)
    got = (sc.n_sc['coolant']['interior'], sc.n_sc['coolant']['edge'],
           sc.n_sc['coolant']['corner'], sc.n_sc['coolant']['total'],
           sc.n_sc['duct']['total'], sc.n_sc['total'])
    if got != (ni, ne, nc, ncool, nduct, ntot):
        bad('count', 'subchannel counts', got, (ni, ne, nc, ncool, nduct, ntot))
    typ = np.asarray(sc.type)
    if len(typ) != ntot or sc.sc_adj.shape[0] != ntot or len(sc.xy) != ntot:
        bad('count', 'array lengths', (len(typ), sc.sc_adj.shape, len(sc.xy)), ntot)
        return r
    exp_types = {0: ni, 1: ne, 2: nc, 3: ne * nd, 4: nc * nd,
                 5: ne * (nd - 1), 6: nc * (nd - 1)}
    for t, cnt in exp_types.items():
        if int(np.sum(typ == t)) != cnt:
            bad('count', 'type %d count' % t, int(np.sum(typ == t)), cnt)
    # layer of each cell: 0 coolant, then duct0, byp0, duct1, byp1, ...
    layer = np.zeros(ntot, dtype=int)
    for k in range(2 * nd - 1):
        layer[ncool + k * nduct: ncool + (k + 1) * nduct] = k + 1
    adj = sc.sc_adj
    nbrs = [set(int(x) for x in row if x >= 0) for row in adj]
    r['transitions'] = int(sum(len(s) for s in nbrs))
    for i in range(ntot):
        row = [int(x) for x in adj[i] if x >= 0]
        if len(row) != len(nbrs[i]):
            bad('adjacency', 'duplicate neighbour in row %d' % i, row)
            break
        if i in nbrs[i]:
            bad('adjacency', 'self adjacency %d' % i)
            break
        if any(x >= ntot for x in row):
            bad('adjacency', 'index out of range in row %d' % i, row)
            break
    asym = [(i, j) for i in range(ntot) for j in nbrs[i] if j < ntot and i not in nbrs[j]]
    if asym:
        bad('adjacency-symmetry', 'sc_adj not symmetric', asym[:5], [])
    # neighbour counts by type
    for i in range(ntot):
        t = int(typ[i])
        nb = nbrs[i]
        tt = sorted(int(typ[j]) for j in nb if j < ntot)
        lay = sorted(int(layer[j]) for j in nb if j < ntot)
        if t == 0:
            ok = len(nb) == 3 and all(x in (0, 1) for x in tt)
        elif t == 1:
            ok = (len(nb) == 4 and tt.count(0) == 1 and tt.count(3) == 1
                  and sum(1 for x in tt if x in (1, 2)) == 2)
        elif t == 2:
            ok = len(nb) == 3 and tt.count(1) == 2 and tt.count(4) == 1
        else:
            L = int(layer[i])
            last = (L == 2 * nd - 1)
            want = [L - 1, L, L] + ([] if last else [L + 1])
            ok = lay == sorted(want)
            # in-ring neighbours of same class (duct/bypass); inward/outward
            # neighbour has the same edge/corner kind
            kind = (t - 3) % 2
            for j in nb:
                if layer[j] != L:
                    tj = int(typ[j])
                    kj = (tj - 1) % 2 if layer[j] == 0 else (tj - 3) % 2
                    if layer[j] == 0:
                        kj = 0 if tj == 1 else 1
                    if kj != kind:
                        ok = False
        if not ok:
            bad('neighbour-count', 'cell %d type %d has neighbours of types %s layers %s'
                % (i, t, tt, lay))
            break
    # radial chains: the inward/outward neighbour sits on the same perimeter slot
    for i in range(ncool, ntot):
        L = int(layer[i])
        slot = (i - ncool) % nduct
        for j in nbrs[i]:
            if layer[j] == L:
                continue
            sj = (j - ni) if layer[j] == 0 else (j - ncool) % nduct
            if sj != slot:
                bad('radial-chain', 'cell %d slot %d linked to %d slot %d' % (i, slot, j, sj))
                break
    # in-ring neighbours are the cyclic predecessor / successor
    for i in range(ni, ntot):
        L = int(layer[i])
        if L == 0:
            base, m = ni, ne + nc
        else:
            base, m = ncool + (L - 1) * nduct, nduct
        s = i - base
        want = {base + (s - 1) % m, base + (s + 1) % m}
        have = {j for j in nbrs[i] if layer[j] == L and j >= ni}
        if have != want:
            bad('ring-order', 'cell %d ring neighbours' % i, sorted(have), sorted(want))
            break

    # ---------------- pin <-> subchannel incidence -------------------
    q = np.array([1.0 / 6.0, 0.25, 1.0 / 6.0])
    pa = sc.pin_adj
    rpa = sc.rev_pin_adj
    fr = np.zeros(npin)
    inc = set()
    for p in range(npin):
        row = [int(x) for x in pa[p] if x >= 0]
        if len(set(row)) != len(row) or any(x >= ncool for x in row):
            bad('pin-adjacency', 'bad pin_adj row %d' % p, row)
            break
        for s_ in row:
            inc.add((p, s_))
            fr[p] += q[int(typ[s_])]
    if np.max(np.abs(fr - 1.0)) > 1e-12:
        p = int(np.argmax(np.abs(fr - 1.0)))
        bad('pin-fractions', 'power fractions of pin %d do not sum to one' % p,
            float(fr[p]), 1.0, 1e-12)
    # the module constant actually used by the solver
    from dassh import region_rodded
    if np.max(np.abs(np.asarray(region_rodded.q_p2sc) - q)) > 1e-12:
        bad('pin-fractions', 'q_p2sc constant', list(region_rodded.q_p2sc), list(q), 1e-12)
    inc2 = set()
    for s_ in range(ncool):
        row = [int(x) for x in rpa[s_] if x >= 0]
        want = {0: 3, 1: 2, 2: 1}[int(typ[s_])]
        if len(row) != want or len(set(row)) != len(row):
            bad('pin-adjacency', 'subchannel %d (type %d) touches pins %s' % (s_, typ[s_], row))
            break
        for p in row:
            inc2.add((p, s_))
    if inc != inc2:
        bad('pin-adjacency-inverse', 'pin_adj and rev_pin_adj are not mutually inverse',
            sorted(inc ^ inc2)[:6], [])
    r['transitions'] += len(inc)

    # ---------------- centroids --------------------------------------
    xy = np.asarray(sc.xy, dtype=float)
    pxy = np.asarray(pl.xy, dtype=float)
    scale = P
    # pin adjacency == nearest coolant centroids
    dall, iall = _nearest(xy[:ncool], pxy, k=7)
    for p in range(npin):
        row = sorted(int(x) for x in pa[p] if x >= 0)
        d, idx = dall[p], iall[p]
        if sorted(int(x) for x in idx[:len(row)]) != row or not (d[len(row)] > d[len(row) - 1] * (1 + 1e-6)):
            bad('centroid-pin', 'pin %d adjacent subchannels are not its nearest centroids' % p,
                row, sorted(int(x) for x in idx[:len(row)]))
            break
    # six-fold symmetry per layer and type
    groups = [np.where((layer == 0) & (typ == t))[0] for t in (0, 1, 2)]
    for L in range(1, 2 * nd):
        for k in (0, 1):
            groups.append(np.where((layer == L) & (((typ - 3) % 2) == k))[0])
    groups.append(None)  # pins
    worst = 0.0
    for g in groups:
        pts = pxy if g is None else xy[g]
        ok, dmax = _same_pointset(_rot(pts, 1), pts, 1e-9 * max(1.0, n) )
        if dmax is not None:
            worst = max(worst, dmax / scale)
        if not ok:
            bad('sixfold', 'centroid set not invariant under 60 degree rotation',
                dmax, 0.0, 1e-9 * n)
            break
    # rotation by 60 deg maps slot s -> s + n on every perimeter ring (clockwise numbering)
    for L in range(1, 2 * nd):
        base = ncool + (L - 1) * nduct
        pts = xy[base:base + nduct]
        rot = _rot(pts, 1)
        dd = np.max(np.linalg.norm(rot - np.roll(pts, -n, axis=0), axis=1))
        dd2 = np.max(np.linalg.norm(rot - np.roll(pts, n, axis=0), axis=1))
        if min(dd, dd2) > 1e-9 * n:
            bad('sixfold-order', 'perimeter numbering does not advance by one side per 60 degrees',
                float(min(dd, dd2)), 0.0, 1e-9 * n)
            break

    # ---------------- geometry on the real RoddedRegion ---------------
    try:
        cool = dassh.Material('sodium_se2anl_425')
        duct = dassh.Material('ht9_se2anl_425')
        rr = dassh.RoddedRegion('c08', n, P, D, Pw, Dw, dsn['clad_thickness'],
                                ftf, 1.0 * n, cool, duct, None, 'CTD', 'CTD',
                                'CTD', 'DB', None, None, 0.05, None,
                                'clockwise', 1.0, c['se2'])
    except BaseException as e:
        V.append(violation('region-construction', c, '%s: %s' % (type(e).__name__, str(e)[:200]),
                           site=site_of(e)))
        r['outcome'] = 'region-fail'
        return r
    if Dw == 0.0 or c['se2']:
        cos = 1.0
    else:
        cos = Pw / math.sqrt(Pw ** 2 + (math.pi * (D + Dw)) ** 2)
    A = rr.params['area']
    hexa = SQ3 / 2.0 * dftf[0][0] ** 2
    lhs = ni * A[0] + ne * A[1] + nc * A[2] + npin * (math.pi * D * D / 4 + math.pi * Dw * Dw / 4 / cos)
    if abs(lhs - hexa) > TOL * hexa:
        bad('area-tiling', 'flow + pin + wire area != inner hexagon', lhs, hexa, TOL * hexa)
    if abs(rr.bundle_params['area'] - (ni * A[0] + ne * A[1] + nc * A[2])) > TOL * hexa:
        bad('area-tiling', 'bundle area != sum of subchannel areas',
            rr.bundle_params['area'], ni * A[0] + ne * A[1] + nc * A[2])
    # region bookkeeping arrays
    if abs(float(np.sum(rr.area['coolant_int'])) - rr.bundle_params['area']) > TOL * hexa:
        bad('area-tiling', 'region coolant area array', float(np.sum(rr.area['coolant_int'])),
            rr.bundle_params['area'])
    for i in range(nd):
        ann = SQ3 / 2.0 * (dftf[i][1] ** 2 - dftf[i][0] ** 2)
        cells = ne * rr.duct_params['area'][i][0] + nc * rr.duct_params['area'][i][1]
        if abs(cells - ann) > TOL * ann:
            bad('duct-tiling', 'duct %d cells do not tile the annulus' % i, cells, ann, TOL * ann)
        if abs(rr.duct_params['total area'][i] - ann) > TOL * ann:
            bad('duct-tiling', 'duct %d total area' % i, rr.duct_params['total area'][i], ann)
        if abs(float(np.sum(rr.area['duct_mw'][i])) - ann) > TOL * ann:
            bad('duct-tiling', 'region duct area array %d' % i,
                float(np.sum(rr.area['duct_mw'][i])), ann)
    for i in range(nd - 1):
        ann = SQ3 / 2.0 * (dftf[i + 1][0] ** 2 - dftf[i][1] ** 2)
        cells = ne * rr.bypass_params['area'][i][0] + nc * rr.bypass_params['area'][i][1]
        if abs(cells - ann) > TOL * ann:
            bad('bypass-tiling', 'bypass %d cells do not tile the annulus' % i, cells, ann, TOL * ann)
        if abs(rr.bypass_params['total area'][i] - ann) > TOL * ann:
            bad('bypass-tiling', 'bypass %d total area' % i,
                rr.bypass_params['total area'][i], ann)
    # distance between centroids of adjacent coolant cells == published L
    Lm = rr.L
    worstL = 0.0
    for i in range(ncool):
        for j in nbrs[i]:
            if j >= ncool or j < i:
                continue
            dist = float(np.linalg.norm(xy[i] - xy[j]))
            ref = Lm[int(typ[i])][int(typ[j])]
            if 2 in (int(typ[i]), int(typ[j])):
                # edge-corner: the published L is measured along the wall
                # round the corner, the centroids are joined by a chord; only
                # consistency (chord <= path, same order of magnitude) is meant
                if not (0.5 * ref < dist <= ref * 1.5):
                    bad('centroid-distance', 'edge-corner chord %d-%d' % (i, j), dist, ref)
                    break
                continue
            worstL = max(worstL, abs(dist - ref) / P)
            if abs(dist - ref) > 1e-9 * P:
                bad('centroid-distance', 'centroid distance of adjacent cells %d(%d)-%d(%d) != L'
                    % (i, typ[i], j, typ[j]), dist, ref, 1e-9 * P)
                break
        else:
            continue
        break
    # independent values for L (Cheng-Todreas centroid model)
    e_p2d = 0.5 * (dftf[0][0] - SQ3 * P * (n - 1))
    pw = e_p2d - 0.5 * D
    Lref = {(0, 0): P / SQ3, (0, 1): 0.5 * (P / SQ3 + 0.5 * D + pw), (1, 1): P,
            (1, 2): 0.5 * (P + (0.5 * D + pw) / SQ3)}
    for (a, b), v in Lref.items():
        if abs(Lm[a][b] - v) > 1e-12 * P or abs(Lm[b][a] - v) > 1e-12 * P:
            bad('centroid-distance', 'published L[%d][%d]' % (a, b), Lm[a][b], v, 1e-12 * P)
    # duct cell boundaries walk exactly once round the outer duct
    xb = rr.calculate_xbnds()
    per = 6.0 / SQ3 * dftf[-1][1]
    if not (xb[0] == 0.0 and abs(xb[-1] - per) < 1e-12 * per and np.all(np.diff(xb) > 0)
            and len(xb) == nduct + 2):
        bad('xbnds', 'duct cell boundaries are not a strictly increasing walk of the perimeter',
            [float(xb[0]), float(xb[-1]), len(xb)], [0.0, per, nduct + 2])
    widths = np.diff(xb)
    # first and last entry are the two halves of the top corner
    if abs((widths[0] + widths[-1]) - 2 * rr.d['wcorner'][-1, 1]) > 1e-12 * per:
        bad('xbnds', 'split corner halves', float(widths[0] + widths[-1]), 2 * rr.d['wcorner'][-1, 1])
    r['info'] = {'ntot': ntot, 'sym_worst': worst, 'L_worst': worstL}
    r['extra'] = {'cells_checked': ntot}
    return r


# ----------------------------------------------------------------------
# part `history`: the geometry of a bundle does not depend on which bundles the process built before
VARIANTS = {
    'walls':   (dict(duct_t=[0.002, 0.003, 0.0035], byp_t=[0.0025, 0.004]),
                dict(duct_t=[0.003, 0.002, 0.0045], byp_t=[0.004, 0.0025])),
    'wire':    (dict(wire=True), dict(wire=False)),
    'pd':      (dict(pd=1.20), dict(pd=1.25)),
    'clr':     (dict(clearance='tight'), dict(clearance='loose')),
    'ducts':   (dict(ducts=2), dict(ducts=3)),
    'se2':     (dict(se2=False), dict(se2=True)),
}


def history_cases(tier):
    out = []
    rings = (2, 3, 5) if tier == 'quick' else (2, 3, 4, 5, 8, 12)
    for n in rings:
        for ducts in (1, 2, 3):
            for var in sorted(VARIANTS):
                if var == 'ducts' and ducts != 2:
                    continue
                if var == 'walls' and ducts == 1 and tier == 'quick':
                    continue
                for first in (0, 1):
                    out.append({'probe': 'history', 'rings': n, 'ducts': ducts, 'vary': var, 'first': first})
    return out


def _build(n, kw):
    import dassh
    k = dict(pd=1.20, ducts=2, wire=True, clearance='tight', se2=False,
             duct_t=[0.002, 0.003, 0.0035], byp_t=[0.0025, 0.004])
    k.update(kw)
    se2 = k.pop('se2')
    nd = k['ducts']
    # the INNER flat-to-flat of the first duct is the same for every variant (pins and inner can identical,
    # only what lies outside differs): outer flat-to-flat = inner + 2 x (walls + bypass gaps)
    thick = sum(k['duct_t'][:nd]) + sum(k['byp_t'][:nd - 1])
    dsn = S.design(n, pd=k['pd'], ducts=nd, wire=k['wire'], clearance=k['clearance'],
                   oftf=round(0.012 * n + 0.02 + 2.0 * thick, 9),
                   duct_t=k['duct_t'][:nd], byp_t=k['byp_t'])
    cool = dassh.Material('sodium_se2anl_425')
    duct = dassh.Material('ht9_se2anl_425')
    return dassh.RoddedRegion('c08', n, dsn['pin_pitch'], dsn['pin_diameter'], dsn['wire_pitch'],
                              dsn['wire_diameter'], dsn['clad_thickness'], dsn['duct_ftf'], 1.0 * n, cool, duct,
                              None, 'CTD', 'CTD', 'CTD', 'DB', None, None, 0.05, None, 'clockwise', 1.0, se2)


def _geometry(rr):
    """every numeric array of the region's geometry, flattened: name -> bytes"""
    out = {}

    def put(name, v):
        if isinstance(v, dict):
            for k in sorted(v, key=str):
                put(name + '.' + str(k), v[k])
        elif isinstance(v, (list, tuple)):
            if all(isinstance(x, (int, float, np.number)) for x in v):
                out[name] = np.asarray(v, dtype=float).tobytes()
            else:
                for i, x in enumerate(v):
                    put('%s[%d]' % (name, i), x)
        elif isinstance(v, np.ndarray) and v.dtype != object:
            out[name] = v.tobytes()
        elif isinstance(v, (int, float, np.number)) and not isinstance(v, bool):
            out[name] = np.asarray(float(v)).tobytes()
    for nm in ('params', 'bundle_params', 'bypass_params', 'duct_params', 'd', 'L', 'ht', 'area', 'total_area',
               'n_pin', 'n_duct', 'n_bypass', 'duct_ftf'):
        if hasattr(rr, nm):
            put(nm, getattr(rr, nm))
    sc = rr.subchannel
    for nm in ('xy', 'type', 'sc_adj', 'pin_adj', 'rev_pin_adj', 'n_sc'):
        if hasattr(sc, nm):
            put('subchannel.' + nm, getattr(sc, nm))
    put('pin_lattice.xy', rr.pin_lattice.xy)
    return out


def _seq(n, kws):
    rr = None
    for kw in kws:
        rr = _build(n, kw)
    return _geometry(rr)


def run_history(c):
    """B built after A (A differs from B in one attribute) in one process == B built in a pristine
    process, array by array, bit for bit"""
    from .c16 import in_child
    r = new_result()
    V = r['violations']
    va = VARIANTS[c['vary']]
    A = dict(ducts=c['ducts'])
    A.update(va[c['first']])
    B = dict(ducts=c['ducts'])
    B.update(va[1 - c['first']])
    ref = in_child(_seq, c['rings'], [B], budget=300)
    got = in_child(_seq, c['rings'], [A, B], budget=300)
    r['transitions'] = 3
    r['states'] = 2
    r['traces'] = 1
    r['nontrivial'] = True
    if ref[0] != 'ok' or got[0] != 'ok':
        V.append(violation('history-construction', c, 'construction failed: %s / %s' % (ref[:3], got[:3]),
                           site=(ref if ref[0] != 'ok' else got)[-1] if (ref if ref[0] != 'ok' else got)[0] == 'exc'
                           else None))
        r['outcome'] = 'failed'
        return r
    ref, got = ref[1], got[1]
    for k in sorted(ref):
        if k not in got or got[k] != ref[k]:
            V.append(violation('depends-on-history', dict(c, field=k),
                               'bundle geometry %s differs when another bundle (other %s) was built first in the '
                               'same process' % (k, c['vary']), None, None, 0.0, site='field:' + k.split('[')[0]))
            break
    r['outcome'] = 'ok' if not V else 'violation'
    return r


# ----------------------------------------------------------------------
# part `input`: the bundle the input file describes is the bundle that is built
def input_cases(tier):
    out = []
    for n in ((2, 3, 5) if tier == 'quick' else (2, 3, 4, 5, 8)):
        for ducts in (1, 2):
            for se2 in (False, True):
                for wire in (True, False):
                    out.append({'probe': 'input', 'rings': n, 'ducts': ducts, 'se2': se2, 'wire': wire})
    # the same bundle written in cm, the model built the way the command line does (summary tables written):
    # reporting in the user's unit must leave the geometry alone
    for n in (3,):
        for ducts in (1, 2, 3):
            for se2 in (False, True):
                out.append({'probe': 'input', 'rings': n, 'ducts': ducts, 'se2': se2, 'wire': True, 'unit': 'cm', 'out': True})
    # the flat-to-flat values of the walls may be listed in any order in the input file
    for n in ((3,) if tier == 'quick' else (2, 3, 5)):
        for ducts in (2, 3):
            for form in ('outer-first', 'ducts-reversed', 'descending'):
                for se2 in (False, True):
                    out.append({'probe': 'input', 'rings': n, 'ducts': ducts, 'se2': se2, 'wire': True, 'ftf': form})
    return out


def _duct_table_xy(c, dsn, scn, V):
    """the x / y columns of the per-duct AssemblyTables files (type duct_mw) are centroids of THAT duct's wall
    cells: every point lies on the mid-wall hexagon of the duct (largest projection on the six face normals =
    (inner + outer flat-to-flat) / 4) and the points are six-fold symmetric"""
    import glob
    import os
    scn = dict(scn, setup=dict(scn['setup'], Dump={'coolant': True, 'duct': True, 'average': True},
                               AssemblyTables={'t1': {'type': 'duct_mw', 'assemblies': [1],
                                                      'axial_positions': [0.05]}}))
    ftf = sorted(dsn['duct_ftf'])
    normals = [(math.cos(math.radians(a)), math.sin(math.radians(a))) for a in range(0, 360, 60)]
    with S.Built(scn) as b:
        rx = b.reactor(write_output=True)
        rx.temperature_sweep()
        rx.postprocess()
        files = sorted(glob.glob(os.path.join(b.dir, 'temp_duct_mw_a=1*')), key=len)
        if len(files) != len(ftf) // 2:
            return          # file naming / number of files is not part of this property
        for d, fn in enumerate(files):
            rows = [ln.split(',') for ln in open(fn).read().strip().split('\n')][2:]
            xy = np.array([[float(x[0]), float(x[1])] for x in rows])
            apo = (ftf[2 * d] + ftf[2 * d + 1]) / 4.0
            # orientation of the hexagon: flats or corners on the x axis - take the better of the two
            best = None
            for rot in (0.0, 30.0):
                nn = [(math.cos(math.radians(a + rot)), math.sin(math.radians(a + rot))) for a in range(0, 360, 60)]
                proj = np.max(np.array([xy[:, 0] * n[0] + xy[:, 1] * n[1] for n in nn]), axis=0)
                dev = float(np.max(np.abs(proj - apo)))
                best = dev if best is None else min(best, dev)
            if best > 1e-9:
                V.append(violation('duct-table-xy', dict(c, duct=d + 1),
                                   'x / y columns of the duct_mw table of duct %d are not on the mid-wall hexagon of '
                                   'that duct (apothem %.6g m): off by %.3g m' % (d + 1, apo, best), best, 0.0, 1e-9,
                                   site='reactor.py:_write_asm_duct_table'))
                return


def run_input(c):
    """bundle of the assembly a real Reactor builds from an input file ([Setup] se2geo as stated) ==
    RoddedRegion constructed directly from the same dimensions and flag, geometry array by array"""
    import dassh
    r = new_result()
    V = r['violations']
    n, nd = c['rings'], c['ducts']
    dsn = S.design(n, pd=1.2, ducts=nd, wire=c['wire'], clearance='mid', oftf=0.012 * n + 0.03,
                   duct_t=[0.002, 0.003, 0.0035][:nd], byp_t=[0.0025, 0.004])
    ftf = sorted(dsn['duct_ftf'])
    listed = {None: ftf, 'outer-first': [ftf[i + 1 - 2 * (i % 2)] for i in range(len(ftf))],
              'ducts-reversed': [x for i in reversed(range(0, len(ftf), 2)) for x in ftf[i:i + 2]],
              'descending': ftf[::-1]}[c.get('ftf')]
    dsn = dict(dsn, duct_ftf=listed)
    scn = S.single(dsn, 1.0 * n, length=0.1, power={'rings': n, 'nduct': nd, 'cells': [0.0, 0.1], 'q': 100.0,
                                                     'pins': 'uniform'}, setup={'se2geo': c['se2']})
    if c.get('unit'):
        from . import c17
        scn = c17.convert_scenario(scn, c['unit'], 'kelvin', 'kg/s')
    try:
        with S.Built(scn) as b:
            got = _geometry((b.reactor(write_output=True) if c.get('out') else b.reactor()).assemblies[0].rodded)
        cool = dassh.Material('sodium_se2anl_425')
        duct = dassh.Material('ht9_se2anl_425')
        rr = dassh.RoddedRegion('c08', n, dsn['pin_pitch'], dsn['pin_diameter'], dsn['wire_pitch'],
                                dsn['wire_diameter'], dsn['clad_thickness'], ftf, 1.0 * n, cool, duct,
                                None, 'CTD', 'CTD', 'CTD', 'DB', None, None, 0.05, None, 'clockwise', 1.0, c['se2'])
        ref = _geometry(rr)
    except BaseException as e:
        V.append(violation('input-construction', c, '%s: %s' % (type(e).__name__, str(e)[:200]), site=site_of(e)))
        r['outcome'] = 'failed'
        return r
    r['states'], r['transitions'], r['traces'], r['nontrivial'] = 2, 2, 1, True
    if nd > 1 and not V and not c.get('unit'):
        _duct_table_xy(c, dsn, scn, V)

    def differs(k):
        if not c.get('unit'):
            return got[k] != ref[k]
        # lengths stated in another unit come back through one multiplication: equal to round-off
        if got[k] == ref[k]:
            return False
        if k.startswith(('subchannel.type', 'subchannel.sc_adj', 'subchannel.pin_adj', 'subchannel.rev_pin_adj',
                         'subchannel.n_sc', 'n_')):
            return True           # integer maps: exactly
        a, b2 = np.frombuffer(got[k]), np.frombuffer(ref[k])
        return a.shape != b2.shape or not np.allclose(a, b2, rtol=1e-10, atol=1e-14)
    pref = ('params', 'bundle_params', 'bypass_params', 'duct_params', 'd.', 'L', 'subchannel', 'pin_lattice', 'n_')
    if c.get('out'):
        pref += ('duct_ftf',)     # still the stated widths after the summary tables were written
    for k in sorted(ref):
        if k.startswith(pref) and k in got and differs(k):
            V.append(violation('input-bundle-differs', dict(c, field=k),
                               'geometry %s of the bundle built from the input file ([Setup] se2geo = %s) differs from '
                               'the bundle of the same dimensions and flag constructed directly' % (k, c['se2']),
                               None, None, 0.0, site='field:' + k.split('[')[0]))
            break
    r['outcome'] = 'ok' if not V else 'violation'
    return r


def main(run):
    run.rule = ('every (rings 2..20, ducts 1..3, SE2 flag, P/D-wire-clearance) tuple of the stated grid; '
                'a case is non-trivial when the real Subchannel map was built (all are distinct inputs)')
    run.assumptions = ['brute-force nearest-neighbour matching; closed forms of Cheng-Todreas geometry '
                       'recomputed independently in the harness']
    cs = cases(run.tier)
    run.check_determinism(run_case, cs[0])
    run.explore('bundle', cs, run_case, budget_s=300, chunksize=1)
    run.explore('history', history_cases(run.tier), run_history, budget_s=600, chunksize=2)
    run.explore('input', input_cases(run.tier), run_input, budget_s=300, chunksize=2)
    # the summary table of dassh.out through which a user reads this property (vf/props/reports.py)
    from . import reports
    run.explore('report-geometry', reports.cases_geometry(run.tier), reports.run_geometry, budget_s=300)


def replay(body):
    if str((body.get('scenario') or {}).get('probe', '')).startswith('report-'):
        from . import reports
        return reports.replay(body)
    from ..run import guarded
    fn = {'history': run_history, 'input': run_input}.get(body['scenario'].get('probe'), run_case)
    r = guarded(fn, body['scenario'], 600)
    for v in r['violations']:
        print('VIOLATION property=C08 replay=(inline) kind=%s %s' % (v['kind'], v['what']))
    print('outcome', r['outcome'], r.get('info'))
    return 1 if r['violations'] else 0
