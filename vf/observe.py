"""Step driver and independent recomputation of the balances (DESIGN.md s.10).

A Recorder wraps `Assembly.calculate` on each assembly *instance* (no source
hooks), captures the step inputs (dz, mapped gap temperature / film
coefficient, linear powers), snapshots the pre-step state, lets the real step
run and then recomputes the coolant energy balance from physical quantities:
mass flows from areas and flow split, wall heat from film coefficient x wetted
length x (surface - coolant) temperature, generated heat from the linear
powers.  The solver's own `ebal` tallies are only a second comparison.
"""
import numpy as np


def sc_mass_flows(reg):
    """interior subchannel mass flows recomputed from areas and flow split"""
    sc = reg.subchannel
    n = sc.n_sc['coolant']['total']
    typ = sc.type[:n]
    A = reg.params['area'][typ]
    X = reg.coolant_int_params['fs'][typ]
    return reg.int_flow_rate * A * X / reg.bundle_params['area']


def byp_mass_flows(reg):
    out = []
    for i in range(reg.n_bypass):
        sc = reg.subchannel
        start = (sc.n_sc['coolant']['total'] + sc.n_sc['duct']['total']
                 + 2 * i * sc.n_sc['duct']['total'])
        typ = sc.type[start:start + sc.n_sc['bypass']['total']] - 5
        A = reg.bypass_params['area'][i][typ]
        out.append(reg.byp_flow_rate[i] * A / reg.bypass_params['total area'][i])
    return np.array(out)


def wall_lengths(reg, duct, side):
    """wetted length of every duct cell of `duct` on side 0 (inner) / 1 (outer),
    as used for heat exchange with the adjacent coolant: pin pitch for edge
    cells, 2*wcorner[.,1] of the adjacent wall for corner cells."""
    idx = reg._duct_idx
    L = np.where(idx == 0, reg.pin_pitch, 2 * reg.d['wcorner'][duct, 1])
    return L


def mixed_mean(reg):
    """mass-flow weighted mean coolant temperature of the active region,
    recomputed independently (interior + flowing bypass)"""
    if reg.is_rodded:
        m = sc_mass_flows(reg)
        tot = float(np.dot(m, reg.temp['coolant_int']))
        mt = float(np.sum(m))
        if reg.n_bypass > 0 and np.sum(reg.byp_flow_rate) > 0:
            mb = byp_mass_flows(reg)
            tot += float(np.sum(mb * reg.temp['coolant_byp']))
            mt += float(np.sum(mb))
        return tot / mt, mt
    else:
        return float(np.mean(reg.temp['coolant_int'])), reg.flow_rate


class StepRecord(dict):
    pass


class Recorder(object):
    """Attach to a Reactor; records one StepRecord per (assembly, step)."""

    def __init__(self, reactor, cp_fn=None, keep_fields=False, on_record=None):
        self.r = reactor
        self.records = []
        self.region_changes = []
        self.keep_fields = keep_fields
        self.on_record = on_record
        self.cp_fn = cp_fn
        self._last_power = {}
        for ai, a in enumerate(reactor.assemblies):
            self._wrap(ai, a)

    # ------------------------------------------------------------------
    def _wrap(self, ai, asm):
        orig_calc = asm.calculate
        orig_gps = asm.power.get_power_sweep
        rec = self

        def gps(*a, **k):
            p = orig_gps(*a, **k)
            rec._last_power[ai] = {kk: (None if v is None else np.array(v, dtype=float, copy=True))
                                   for kk, v in p.items()}
            return p

        def calc(dz, t_gap, h_gap, z=None, adiabatic=False, ebal=False):
            reg = asm.active_region
            pre = rec._snapshot(reg)
            pre['z0'] = asm.z
            pre['ebal'] = rec._ebal_copy(reg)
            t_gap_c = np.array(t_gap, dtype=float, copy=True)
            h_gap_c = np.array(h_gap, dtype=float, copy=True)
            orig_calc(dz, t_gap, h_gap, z=z, adiabatic=adiabatic, ebal=ebal)
            q = rec._last_power.get(ai)
            sr = rec._balance(ai, asm, reg, pre, dz, t_gap_c, h_gap_c, q, adiabatic, ebal)
            rec.records.append(sr)
            if rec.on_record:
                rec.on_record(sr)

        asm.power.get_power_sweep = gps
        asm.calculate = calc

    @staticmethod
    def _ebal_copy(reg):
        out = {}
        for k, v in reg.ebal.items():
            out[k] = np.array(v, dtype=float, copy=True)
        return out

    @staticmethod
    def _snapshot(reg):
        s = {'T': reg.temp['coolant_int'].copy(),
             'Tsurf': reg.temp['duct_surf'].copy(),
             'Tmw': reg.temp['duct_mw'].copy()}
        if 'coolant_byp' in reg.temp:
            s['Tb'] = reg.temp['coolant_byp'].copy()
        if reg.is_rodded:
            s['htc'] = np.array(reg.coolant_int_params['htc'], dtype=float, copy=True)
            if reg.n_bypass > 0:
                s['htc_b'] = np.array(reg.coolant_byp_params['htc'], dtype=float, copy=True)
        else:
            s['htc'] = float(reg.coolant_params.get('htc', np.nan)) if reg.coolant_params else np.nan
        return s

    # ------------------------------------------------------------------
    def _cp(self, reg, T):
        """heat capacity of the region coolant at temperature T evaluated on a
        private clone of the Material (the solver's object is never touched)"""
        if self.cp_fn is not None:
            return self.cp_fn(T)
        key = id(reg.coolant)
        if not hasattr(self, '_clones'):
            self._clones = {}
        if key not in self._clones:
            self._clones[key] = reg.coolant.clone()
        mat = self._clones[key]
        mat.update(T)
        return mat.heat_capacity

    def _balance(self, ai, asm, reg, pre, dz, t_gap, h_gap, q, adiabatic, ebal):
        sr = StepRecord()
        sr['asm'] = ai
        sr['z'] = asm.z
        sr['dz'] = dz
        sr['region'] = asm.active_region_idx
        sr['kind'] = 'rodded' if reg.is_rodded else reg.model
        T0, T1 = pre['T'], reg.temp['coolant_int']
        if reg.is_rodded:
            m = sc_mass_flows(reg)
            mt = float(np.sum(m))
            sr['m_err'] = abs(mt - reg.int_flow_rate) / reg.int_flow_rate
            Tbar0 = float(np.dot(m, T0)) / mt
            Tbar1 = float(np.dot(m, T1)) / mt
            cp_c = self._cp(reg, 0.5 * (Tbar0 + Tbar1))
            cp_0 = self._cp(reg, Tbar0)
            dH_int = float(np.dot(m, T1 - T0))          # (kg/s K); times cp below
            qp = 0.0 if q is None or q.get('pins') is None else float(np.sum(q['pins']))
            qc = 0.0 if q is None or q.get('cool') is None else float(np.sum(q['cool']))
            # everything the power object hands out for this step is heat generated over the step: a
            # component meant for the other kind of region (step straddling a region boundary) counts too
            qx = 0.0 if q is None or q.get('refl') is None else float(np.sum(q['refl']))
            Qgen = (qp + qc + qx) * dz
            sc = reg.subchannel
            ni = sc.n_sc['coolant']['interior']
            typ = sc.type[ni:sc.n_sc['coolant']['total']]
            h = pre['htc'][typ]
            Lw = wall_lengths(reg, 0, 0)
            # the region solves its walls first (from level-n coolant), then
            # advances the coolant against those walls: wall temps are the
            # ones standing after the call
            Tsurf, Tmw = reg.temp['duct_surf'], reg.temp['duct_mw']
            if reg._conv_approx:
                kd = self._duct_k(reg, float(np.dot(Tmw[0], reg.area['duct_mw_over_total'][0])))
                R = 1.0 / h + 0.5 * reg.d['wall'][0] / kd
                qw = Lw * (Tmw[0] - T0[ni:]) / R * dz
            else:
                qw = h * Lw * (Tsurf[0, 0] - T0[ni:]) * dz
            Qw_int = float(np.sum(qw))
            sr['dH_int'] = dH_int
            sr['cp_c'] = cp_c
            sr['cp_0'] = cp_0
            sr['Qgen'] = Qgen
            sr['Qw_int'] = Qw_int
            sr['res_int_c'] = dH_int * cp_c - Qgen - Qw_int
            sr['res_int_0'] = dH_int * cp_0 - Qgen - Qw_int
            sr['scale'] = max(abs(dH_int * cp_c), abs(Qgen), float(np.sum(np.abs(qw))),
                              1e-6 * mt * cp_c, float(np.sum(h * Lw)) * dz)
            sr['dT_int'] = Tbar1 - Tbar0
            # bypass gaps
            sr['byp'] = []
            if reg.n_bypass > 0:
                flowing = bool(np.sum(reg.byp_flow_rate) > 0)
                for i in range(reg.n_bypass):
                    Tb0, Tb1 = pre['Tb'][i], reg.temp['coolant_byp'][i]
                    hb = pre['htc_b'][i][reg._duct_idx]
                    Lin = wall_lengths(reg, i, 1)
                    Lout = wall_lengths(reg, i + 1, 1) if False else \
                        np.where(reg._duct_idx == 0, reg.pin_pitch, 2 * reg.d['wcorner'][i + 1, 1])
                    if reg._conv_approx and flowing:
                        k1 = self._duct_k(reg, float(np.dot(Tmw[i], reg.area['duct_mw_over_total'][i])))
                        k2 = self._duct_k(reg, float(np.dot(Tmw[i + 1], reg.area['duct_mw_over_total'][i + 1])))
                        R1 = 1.0 / hb + 0.5 * reg.d['wall'][i] / k1
                        R2 = 1.0 / hb + 0.5 * reg.d['wall'][i + 1] / k2
                        qin = Lin * (Tmw[i] - Tb0) / R1 * dz
                        qout = Lout * (Tmw[i + 1] - Tb0) / R2 * dz
                    else:
                        qin = hb * Lin * (Tsurf[i, 1] - Tb0) * dz
                        qout = hb * Lout * (Tsurf[i + 1, 0] - Tb0) * dz
                    b = {'flowing': flowing}
                    if flowing:
                        mb = byp_mass_flows(reg)[i]
                        Tbb0 = float(np.dot(mb, Tb0) / np.sum(mb))
                        Tbb1 = float(np.dot(mb, Tb1) / np.sum(mb))
                        cpb = self._cp(reg, 0.5 * (Tbb0 + Tbb1))
                        dHb = float(np.dot(mb, Tb1 - Tb0))
                        b['dH'] = dHb
                        b['cp_c'] = cpb
                        b['Qw'] = float(np.sum(qin) + np.sum(qout))
                        b['res_c'] = dHb * cpb - b['Qw']
                        b['res_0'] = dHb * self._cp(reg, Tbb0) - b['Qw']
                        # floor: film conductance x 1 K (wall-coolant differences
                        # carry round-off of ~1e-13 K)
                        b['scale'] = max(abs(dHb * cpb), float(np.sum(np.abs(qin)) + np.sum(np.abs(qout))),
                                         1e-6 * float(np.sum(mb)) * cpb,
                                         float(np.sum(hb * (Lin + Lout))) * dz)
                        b['m_err'] = abs(float(np.sum(mb)) - reg.byp_flow_rate[i]) / reg.byp_flow_rate[i]
                    b['qin'] = float(np.sum(qin))
                    b['qout'] = float(np.sum(qout))
                    sr['byp'].append(b)
            # second comparison: solver tallies
            if ebal:
                sr['tally_power'] = float(reg.ebal['power'] - pre['ebal']['power'])
                sr['tally_duct'] = float(np.sum(reg.ebal['duct'] - pre['ebal']['duct']))
        else:
            # low-fidelity regions
            mt = reg.flow_rate
            n = len(T0)
            m = np.ones(n) * mt / n
            Tbar0, Tbar1 = float(np.mean(T0)), float(np.mean(T1))
            cp_c = self._cp(reg, 0.5 * (Tbar0 + Tbar1))
            cp_0 = self._cp(reg, Tbar0)
            dH = float(np.dot(m, T1 - T0))
            qr = 0.0 if q is None or q.get('refl') is None else float(np.sum(q['refl']))
            for kk in ('pins', 'cool'):
                if q is not None and q.get(kk) is not None:
                    qr += float(np.sum(q[kk]))
            Qgen = qr * dz
            if adiabatic:
                Qw = 0.0
                qabs = 0.0
            else:
                if n == 6:
                    # six-node model: coolant is advanced first, against the
                    # walls left by the previous level (one-level lag), with
                    # the film coefficient refreshed at the start of the call
                    h = float(reg.coolant_params['htc'])
                    Tsurf, Tmw = pre['Tsurf'], pre['Tmw']
                else:
                    h = pre['htc']
                    Tsurf, Tmw = reg.temp['duct_surf'], reg.temp['duct_mw']
                if reg._conv_approx:
                    kd = self._duct_k(reg, float(np.dot(Tmw[0], reg.area['duct_mw_over_total'][0])))
                    R = 1.0 / h + 0.5 * reg.duct_thickness / kd
                    qw = reg.duct_perim_over_6 / R * (Tmw[0] - (T0 if n == 6 else T0[0])) * dz
                else:
                    qw = h * reg.duct_perim_over_6 * (Tsurf[0, 0] - (T0 if n == 6 else T0[0])) * dz
                Qw = float(np.sum(qw))
                qabs = float(np.sum(np.abs(qw)))
            sr['dH_int'] = dH
            sr['cp_c'] = cp_c
            sr['cp_0'] = cp_0
            sr['Qgen'] = Qgen
            sr['Qw_int'] = Qw
            sr['res_int_c'] = dH * cp_c - Qgen - Qw
            sr['res_int_0'] = dH * cp_0 - Qgen - Qw
            hfloor = 0.0 if adiabatic else float(h) * reg.duct_perim * dz
            sr['scale'] = max(abs(dH * cp_c), abs(Qgen), qabs, 1e-6 * mt * cp_c, hfloor)
            sr['dT_int'] = Tbar1 - Tbar0
            sr['byp'] = []
            sr['m_err'] = 0.0
            if ebal:
                sr['tally_power'] = float(reg.ebal['power'] - pre['ebal']['power'])
                sr['tally_duct'] = float(np.sum(reg.ebal['duct'] - pre['ebal']['duct']))
        # outer-duct heat to the gap side, on the duct mesh (C02)
        if not adiabatic:
            if reg.is_rodded:
                Lo = np.where(reg._duct_idx == 0, reg.pin_pitch, 2 * reg.d['wcorner'][-1, 1])
            else:
                Lo = np.ones(6) * reg.duct_perim_over_6
            hg = h_gap if np.ndim(h_gap) and len(h_gap) == len(Lo) else np.asarray(h_gap)[reg._duct_idx]
            sr['q_out_cells'] = hg * Lo * (reg.temp['duct_surf'][-1, 1] - t_gap) * dz
            sr['Q_out'] = float(np.sum(sr['q_out_cells']))
            if not self.keep_fields:
                del sr['q_out_cells']
        else:
            sr['Q_out'] = 0.0
        if self.keep_fields:
            sr['T1'] = T1.copy()
            sr['T0'] = T0
        sr['Tmin'] = float(np.min(T1))
        sr['Tmax'] = float(np.max(T1))
        sr['finite'] = bool(np.all(np.isfinite(T1)) and np.all(np.isfinite(reg.temp['duct_mw'])))
        return sr

    def _duct_k(self, reg, T):
        key = ('d', id(reg.duct))
        if not hasattr(self, '_clones'):
            self._clones = {}
        if key not in self._clones:
            self._clones[key] = reg.duct.clone()
        mat = self._clones[key]
        mat.update(T)
        return mat.thermal_conductivity


def sweep(reactor, recorder=None, before_switch=None, after_step=None, max_steps=None):
    """drive the real sweep one axial_step at a time.
    before_switch(ai, asm, step) is called (via wrapped update_region) just
    before an assembly changes region; after_step(step) after every step."""
    r = reactor
    r._data_setup()
    r._data_open()
    r.axial_step0()
    if before_switch is not None or recorder is not None:
        for ai, a in enumerate(r.assemblies):
            _wrap_update_region(ai, a, recorder, before_switch)
    n = len(r.z)
    if max_steps:
        n = min(n, max_steps + 1)
    for i in range(1, n):
        r.axial_step(r.z[i], r.dz[i - 1], i)
        if after_step is not None:
            after_step(i)
    try:
        r._data_close()
    except (AttributeError, KeyError):
        pass


def _wrap_update_region(ai, asm, recorder, before_switch):
    orig = asm.update_region

    def upd(z, t_gap, h_gap, adiabatic=False):
        old = asm.active_region
        tm, mt = mixed_mean(old)
        if before_switch is not None:
            before_switch(ai, asm)
        orig(z, t_gap, h_gap, adiabatic)
        new = asm.active_region
        if new is not old and recorder is not None:
            vals = [new.temp['coolant_int']]
            if 'coolant_byp' in new.temp:
                vals.append(new.temp['coolant_byp'].ravel())
            allv = np.concatenate(vals)
            recorder.region_changes.append({
                'asm': ai, 'z': z, 'mixed_mean_before': tm,
                'after_min': float(np.min(allv)), 'after_max': float(np.max(allv)),
                'code_avg_before': float(old.avg_coolant_temp),
                'from': 'rodded' if old.is_rodded else old.model,
                'to': 'rodded' if new.is_rodded else new.model})

    asm.update_region = upd
