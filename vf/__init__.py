"""Bounded-exhaustive exploration harness for dassh (see /verif/DESIGN.md)."""
import os
import sys

# One BLAS thread per worker; deterministic hashing is requested by ./check
os.environ.setdefault('OPENBLAS_NUM_THREADS', '1')
os.environ.setdefault('OMP_NUM_THREADS', '1')
os.environ.setdefault('MKL_NUM_THREADS', '1')

REPO = os.environ.get('VERIF_REPO', '/repo')
VERIF = os.path.dirname(os.path.dirname(os.path.abspath(__file__)))


def import_dassh():
    """Import dassh from the current working tree of /repo (never from a
    snapshot or site-packages copy) and silence its loggers."""
    if REPO not in sys.path:
        sys.path.insert(0, REPO)
    import logging
    import warnings
    warnings.filterwarnings('ignore')
    import dassh
    root = os.path.realpath(os.path.dirname(os.path.dirname(dassh.__file__)))
    assert root == os.path.realpath(REPO), \
        'dassh imported from %s, expected %s' % (root, REPO)
    logging.disable(logging.CRITICAL)
    return dassh
