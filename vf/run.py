"""Run bookkeeping: parallel exhaustive map over scenarios, explicit-state BFS,
violation collection, known-finding matching, replay artefacts, evidence."""
import hashlib
import json
import multiprocessing as mp
import os
import signal
import sys
import time
import traceback

from . import VERIF, REPO

N_WORKERS = int(os.environ.get('VERIF_WORKERS', '16'))


class Hang(Exception):
    pass


class NoProgress(Exception):
    pass


def _alarm(signum, frame):
    raise Hang('per-call budget exceeded')


def canon(obj):
    return json.dumps(obj, sort_keys=True, default=_js)


def _js(o):
    import numpy as np
    if isinstance(o, (np.integer,)):
        return int(o)
    if isinstance(o, (np.floating,)):
        return float(o)
    if isinstance(o, np.ndarray):
        return o.tolist()
    if isinstance(o, (set, frozenset)):
        return sorted(o)
    if isinstance(o, tuple):
        return list(o)
    return repr(o)


def site_of(exc):
    """exception type + innermost frame that lies in the dassh package."""
    tb = traceback.extract_tb(exc.__traceback__)
    inner = None
    for fr in tb:
        if os.sep + 'dassh' + os.sep in fr.filename and '/verif/' not in fr.filename:
            inner = fr
    if inner is None:
        inner = tb[-1] if tb else None
    loc = '%s:%s' % (os.path.basename(inner.filename), inner.name) if inner else '?'
    return '%s@%s' % (type(exc).__name__, loc)


def violation(kind, scenario, what, observed=None, expected=None, tol=None,
              site=None):
    return {'kind': kind, 'scenario': scenario, 'what': what,
            'observed': observed, 'expected': expected, 'tolerance': tol,
            'site': site}


def new_result():
    return {'states': 0, 'transitions': 0, 'traces': 0, 'key': None,
            'nontrivial': False, 'outcome': 'ok', 'violations': [],
            'extra': {}, 'info': None}


def guarded(fn, scn, budget_s=60):
    """Run fn(scn) under a SIGALRM budget. Any exception that escapes the
    worker is itself reported (never silently dropped)."""
    # the budget is CPU time of this worker (load on the machine must not turn a slow case into a "hang");
    # a wall-clock backstop of ten times the budget catches a call that waits without computing
    old = signal.signal(signal.SIGALRM, _alarm)
    oldp = signal.signal(signal.SIGPROF, _alarm)
    signal.setitimer(signal.ITIMER_PROF, budget_s)
    signal.setitimer(signal.ITIMER_REAL, max(10.0 * budget_s, 600.0))
    try:
        return fn(scn)
    except Hang as e:
        r = new_result()
        r['outcome'] = 'HANG'
        r['violations'].append(violation(
            'hang', scn, 'call did not finish within %ss' % budget_s,
            site='Hang'))
        return r
    except BaseException as e:  # harness-level failure: SystemExit included
        signal.setitimer(signal.ITIMER_REAL, 0)
        signal.setitimer(signal.ITIMER_PROF, 0)
        r = new_result()
        r['outcome'] = 'EXC:' + site_of(e)
        r['violations'].append(violation(
            'unexpected-exception', scn,
            '%s: %s' % (type(e).__name__, str(e)[:300]), site=site_of(e)))
        return r
    finally:
        signal.setitimer(signal.ITIMER_REAL, 0)
        signal.setitimer(signal.ITIMER_PROF, 0)
        signal.signal(signal.SIGALRM, old)
        signal.signal(signal.SIGPROF, oldp)


_WORKER_FN = None
_WORKER_BUDGET = 60


def _call(scn):
    return guarded(_WORKER_FN, scn, _WORKER_BUDGET)


class Run(object):
    def __init__(self, prop, tier, seed, level='model_checking'):
        self.prop = prop
        self.tier = tier
        self.seed = seed
        self.level = level
        self.t0 = time.time()
        self.states = 0
        self.transitions = 0
        self.traces = 0
        self.evaluations = 0
        self.keys = set()
        self.outcomes = {}
        self.extra = {}
        self.violations = []
        self.samples = []
        self.caps = []
        self.parts = []
        self.exhaustive = True
        self.rule = ''
        self.assumptions = []
        self.notes = {}
        self.determinism = None

    # ------------------------------------------------------------------
    def explore(self, name, cases, fn, budget_s=60, chunksize=None,
                workers=None, horizon_s=None):
        """Evaluate fn on EVERY case (no sampling), in parallel, results in
        case order so counts and first counterexample are reproducible."""
        global _WORKER_FN, _WORKER_BUDGET
        cases = list(cases)
        n = len(cases)
        t0 = time.time()
        _WORKER_FN, _WORKER_BUDGET = fn, budget_s
        workers = workers or N_WORKERS
        results = []
        if n == 0:
            self.parts.append({'name': name, 'cases': 0})
            return results
        if workers <= 1 or n < 4:
            for c in cases:
                results.append(_call(c))
        else:
            if chunksize is None:
                chunksize = max(1, min(64, n // (workers * 8) or 1))
            ctx = mp.get_context('fork')
            with ctx.Pool(min(workers, n)) as pool:
                it = pool.imap(_call, cases, chunksize)
                for r in it:
                    results.append(r)
                    if horizon_s and time.time() - t0 > horizon_s:
                        pool.terminate()
                        self.caps.append('%s: horizon %ss hit after %d/%d cases'
                                         % (name, horizon_s, len(results), n))
                        self.exhaustive = False
                        break
        for c, r in zip(cases, results):
            self._merge(name, c, r)
        if len(self.samples) < 6 and results:
            self.samples.append({'part': name, 'case': cases[0],
                                 'outcome': results[0]['outcome'],
                                 'info': results[0].get('info')})
            if n > 2:
                self.samples.append({'part': name, 'case': cases[n // 2],
                                     'outcome': results[n // 2]['outcome'],
                                     'info': results[n // 2].get('info')})
        self.parts.append({'name': name, 'cases': n, 'done': len(results),
                           'wall_s': round(time.time() - t0, 2)})
        return results

    def _merge(self, name, case, r):
        self.evaluations += 1
        self.states += r['states']
        self.transitions += r['transitions']
        self.traces += r['traces']
        if r['nontrivial']:
            k = r['key'] if r['key'] is not None else canon(case)
            self.keys.add(name + '|' + (k if isinstance(k, str) else canon(k)))
        lab = name + ':' + str(r['outcome'])
        self.outcomes[lab] = self.outcomes.get(lab, 0) + 1
        for k, v in r['extra'].items():
            if isinstance(v, (int, float)):
                self.extra[k] = self.extra.get(k, 0) + v
            elif isinstance(v, dict):
                d = self.extra.setdefault(k, {})
                for kk, vv in v.items():
                    d[kk] = d.get(kk, 0) + vv
            elif isinstance(v, list):
                self.extra.setdefault(k, [])
                if len(self.extra[k]) < 20:
                    self.extra[k].extend(v[:20])
        for v in r['violations']:
            v = dict(v)
            v['part'] = name
            self.violations.append(v)

    def add(self, name, case, r):
        """merge a result computed in the parent (BFS searches)"""
        self._merge(name, case, r)

    def max_extra(self, k, v):
        self.notes[k] = max(self.notes.get(k, v), v)

    def check_determinism(self, fn, scn, project=lambda r: (r['outcome'], r['states'], r['transitions'], r.get('info'))):
        a = project(guarded(fn, scn, 120))
        b = project(guarded(fn, scn, 120))
        self.determinism = (canon(a) == canon(b))
        if not self.determinism:
            self.violations.append(violation(
                'harness-nondeterminism', scn,
                'two replays of the first scenario differ', a, b))
            self.violations[-1]['part'] = 'selftest'

    # ------------------------------------------------------------------
    def finish(self):
        wall = time.time() - self.t0
        known = load_known(self.prop)
        groups = {}
        for v in self.violations:
            g = (v.get('part'), v['kind'], v.get('site'))
            groups.setdefault(g, []).append(v)
        unknown_groups = []
        known_hits = {}
        n_unknown = 0
        for g, vs in groups.items():
            rest = []
            for v in vs:
                kf = match_known(known, v)
                if kf is not None:
                    known_hits.setdefault(kf['id'], [kf, 0])
                    known_hits[kf['id']][1] += 1
                else:
                    rest.append(v)
            if rest:
                unknown_groups.append((g, rest))
                n_unknown += len(rest)
        for kid, (kf, n) in sorted(known_hits.items()):
            print('KNOWN-FINDING: property=%s %s [%s; %d matching cases]'
                  % (self.prop, kf['what'], kid, n))
        lines = 0
        for g, vs in unknown_groups:
            v = vs[0]
            path = write_replay(self.prop, self.tier, v)
            if lines < 25:
                print('VIOLATION property=%s replay=%s' % (self.prop, path))
                print('  part=%s kind=%s site=%s count=%d: %s'
                      % (g[0], g[1], g[2], len(vs), str(v['what'])[:400]))
                if v.get('observed') is not None or v.get('expected') is not None:
                    print('  observed=%s expected=%s tol=%s'
                          % (str(v.get('observed'))[:300],
                             str(v.get('expected'))[:300], v.get('tolerance')))
            lines += 1
        cov = {
            'states': int(self.states),
            'transitions': int(self.transitions),
            'traces_validated_against_impl': int(self.traces),
            'evaluations': int(self.evaluations),
            'distinct_nontrivial': len(self.keys),
            'rule': self.rule,
            'samples': json.loads(canon(self.samples[:6])) or [{'note': 'none'}],
            'exhaustive': bool(self.exhaustive and not self.caps),
            'caps_hit': self.caps,
            'parts': self.parts,
            'outcomes': self.outcomes,
            'extra': json.loads(canon(self.extra)),
            'notes': json.loads(canon(self.notes)),
            'determinism_selftest': self.determinism,
            'known_findings_matched': {k: n for k, (kf, n) in known_hits.items()},
            'workers': N_WORKERS,
            'dassh_tree': tree_id(),
        }
        ev = {
            'property_id': self.prop,
            'tier': self.tier,
            'seed': int(self.seed),
            'level': self.level,
            'coverage': cov,
            'assumptions': self.assumptions,
            'wall_s': round(wall, 2),
            'violations': int(n_unknown),
        }
        evdir = os.environ.get('VERIF_EVIDENCE_DIR') or os.path.join(VERIF, 'evidence')
        os.makedirs(evdir, exist_ok=True)
        p = os.path.join(evdir, self.prop + '.json')
        with open(p + '.tmp', 'w') as f:
            json.dump(ev, f, indent=1, sort_keys=True)
        os.replace(p + '.tmp', p)
        print('%s %s: states=%d transitions=%d traces=%d evaluations=%d '
              'distinct_nontrivial=%d violations=%d known=%d wall=%.1fs exhaustive=%s'
              % (self.prop, self.tier, self.states, self.transitions,
                 self.traces, self.evaluations, len(self.keys), n_unknown,
                 sum(n for _, n in known_hits.values()), wall,
                 cov['exhaustive']))
        return 1 if n_unknown else 0


def tree_id():
    import subprocess
    try:
        h = subprocess.run(['git', '-C', REPO, 'rev-parse', '--short', 'HEAD'],
                           capture_output=True, text=True).stdout.strip()
        d = subprocess.run(['git', '-C', REPO, 'status', '--porcelain',
                            '--untracked-files=no'],
                           capture_output=True, text=True).stdout.strip()
        return h + ('+dirty' if d else '')
    except Exception:
        return 'unknown'


# ----------------------------------------------------------------------
# known findings
def load_known(prop):
    p = os.path.join(VERIF, 'known_findings.json')
    if not os.path.exists(p):
        return []
    with open(p) as f:
        data = json.load(f)
    return [k for k in data.get('findings', [])
            if k.get('property') == prop and k.get('kind') == 'known']


def _flat(prefix, obj, out):
    if isinstance(obj, dict):
        for k, v in obj.items():
            _flat(prefix + '.' + str(k) if prefix else str(k), v, out)
    else:
        out[prefix] = obj


def match_known(known, v):
    flat = {}
    _flat('scenario', v.get('scenario'), flat)
    flat['kind'] = v.get('kind')
    flat['site'] = v.get('site')
    flat['part'] = v.get('part')
    if isinstance(v.get('observed'), (int, float)):
        flat['observed'] = v.get('observed')
    for kf in known:
        ok = True
        for key, want in kf.get('match', {}).items():
            have = flat.get(key)
            if isinstance(want, dict) and 'in' in want:
                if have not in want['in']:
                    ok = False
            elif isinstance(want, dict) and 'prefix' in want:
                if not (isinstance(have, str) and have.startswith(want['prefix'])):
                    ok = False
            elif isinstance(want, dict) and ('lt' in want or 'ge' in want):
                # both bounds may be given: ge <= have < lt
                if not isinstance(have, (int, float)):
                    ok = False
                elif 'lt' in want and not have < want['lt']:
                    ok = False
                elif 'ge' in want and not have >= want['ge']:
                    ok = False
            elif isinstance(want, dict) and 'ne' in want:
                if have == want['ne']:
                    ok = False
            else:
                if have != want:
                    ok = False
            if not ok:
                break
        if ok:
            return kf
    return None


def write_replay(prop, tier, v):
    d = os.path.join(os.environ.get('VERIF_REPLAY_DIR') or os.path.join(VERIF, 'replay'), prop)
    os.makedirs(d, exist_ok=True)
    body = {'property': prop, 'tier': tier, 'part': v.get('part'),
            'kind': v['kind'], 'site': v.get('site'),
            'scenario': v['scenario'], 'what': v['what'],
            'observed': v.get('observed'), 'expected': v.get('expected'),
            'tolerance': v.get('tolerance'), 'dassh_tree': tree_id()}
    s = canon(body)
    h = hashlib.sha1(canon([v.get('part'), v['kind'], v.get('site'),
                            v['scenario']]).encode()).hexdigest()[:12]
    p = os.path.join(d, h + '.json')
    with open(p, 'w') as f:
        f.write(json.dumps(json.loads(s), indent=1, sort_keys=True))
    return p


# ----------------------------------------------------------------------
def bfs(initial, enabled, step, canon_state, invariant, max_depth,
        max_states=None):
    """Explicit-state breadth-first search with state merging.
    A state is whatever `step` returns (must be picklable/serialisable by the
    caller's canon_state).  Returns dict(states, transitions, depth, viol)."""
    from collections import deque
    seen = {}
    frontier = deque()
    viol = []
    for s in initial:
        k = canon_state(s)
        if k not in seen:
            seen[k] = 0
            frontier.append((s, 0, []))
            viol.extend(invariant(s, []))
    transitions = 0
    maxd = 0
    capped = False
    while frontier:
        s, d, hist = frontier.popleft()
        maxd = max(maxd, d)
        if d >= max_depth:
            continue
        for ev in enabled(s):
            nxt = step(s, ev)
            transitions += 1
            h2 = hist + [ev]
            viol.extend(invariant(nxt, h2))
            k = canon_state(nxt)
            if k not in seen:
                if max_states and len(seen) >= max_states:
                    capped = True
                    continue
                seen[k] = d + 1
                frontier.append((nxt, d + 1, h2))
    return {'states': len(seen), 'transitions': transitions, 'depth': maxd,
            'violations': viol, 'capped': capped}
